// Package nolog is a logger that discards everything (the repository's "silent" logger still prints
// error-level entries with stack traces).
package nolog

import "github.com/LiskHQ/lisk-engine/pkg/log"

type L struct{}

func (L) Debug(msg string, others ...interface{})    {}
func (L) Info(msg string, others ...interface{})     {}
func (L) Error(msg string, others ...interface{})    {}
func (L) Debugf(msg string, others ...interface{})   {}
func (L) Infof(msg string, others ...interface{})    {}
func (L) Errorf(msg string, others ...interface{})   {}
func (L) Warning(msg string, others ...interface{})  {}
func (L) Warningf(msg string, others ...interface{}) {}
func (L) With(kv ...interface{}) log.Logger          { return L{} }

var _ log.Logger = L{}
