// Package nolog is a logger that discards everything (the repository's "silent" logger still prints
// error-level entries with stack traces). With VERIF_LOG set it prints to stderr (replaying one case).
package nolog

import (
	"fmt"
	"os"

	"github.com/LiskHQ/lisk-engine/pkg/log"
)

var Verbose = os.Getenv("VERIF_LOG") != ""

type L struct{}

func p(level, msg string, others ...interface{}) {
	if Verbose {
		fmt.Fprintln(os.Stderr, append([]interface{}{"[" + level + "]", msg}, others...)...)
	}
}
func pf(level, msg string, others ...interface{}) {
	if Verbose {
		fmt.Fprintf(os.Stderr, "["+level+"] "+msg+"\n", others...)
	}
}

func (L) Debug(msg string, others ...interface{})    { p("debug", msg, others...) }
func (L) Info(msg string, others ...interface{})     { p("info", msg, others...) }
func (L) Error(msg string, others ...interface{})    { p("error", msg, others...) }
func (L) Debugf(msg string, others ...interface{})   { pf("debug", msg, others...) }
func (L) Infof(msg string, others ...interface{})    { pf("info", msg, others...) }
func (L) Errorf(msg string, others ...interface{})   { pf("error", msg, others...) }
func (L) Warning(msg string, others ...interface{})  { p("warn", msg, others...) }
func (L) Warningf(msg string, others ...interface{}) { pf("warn", msg, others...) }
func (L) With(kv ...interface{}) log.Logger          { return L{} }

var _ log.Logger = L{}
