#!/bin/bash
# Copies a confirmed seeded change into /verif/seeded/<ID>/<slug>/ (patch.diff, demonstration, meta.json).
#   tools/keep_seed.sh <ID> <k>
id=$1; k=$2
out=/tmp/seed/$id.out/change$k
slug=$(python3 - "$out/meta.json" <<'PY'
import json,sys,re
m=json.load(open(sys.argv[1]))
s=re.sub(r'[^a-z0-9]+','-',m.get('title','change').lower()).strip('-')[:48]
import os
print(os.environ.get('SEED_PREFIX','') + (s or 'change'))
PY
)
dst=/verif/seeded/$id/$slug
mkdir -p $dst
cp $out/patch.diff $dst/patch.diff
for f in $out/*; do case "$f" in */patch.diff|*/meta.json) ;; *) cp "$f" $dst/ ;; esac; done
python3 - "$out/meta.json" "$dst/meta.json" <<'PY'
import json,sys
m=json.load(open(sys.argv[1]))
m['origin']='fresh sub-agent given only the property text and a scratch worktree'
import os
m['round']=int(os.environ.get('SEED_ROUND','1'))
m['confirmed']='patch applies, tree builds, the 277 stable baseline tests pass with it, the demonstration fails with the change and passes without it (tools/confirm_seed.sh, scratch worktree)'
json.dump(m,open(sys.argv[2],'w'),indent=1)
PY
echo $dst
