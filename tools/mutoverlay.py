#!/usr/bin/env python3
"""mutoverlay.py <patch.diff> <outdir> [base-overlay.json]
Applies a unified diff (paths relative to /repo, -p1) to COPIES of the touched files and writes
<outdir>/overlay.json mapping the /repo paths to the patched copies (merged with an optional base
overlay). /repo itself is never touched."""
import json, os, re, shutil, subprocess, sys
patch, out = sys.argv[1], sys.argv[2]
base = json.load(open(sys.argv[3]))["Replace"] if len(sys.argv) > 3 and os.path.exists(sys.argv[3]) else {}
shutil.rmtree(out, ignore_errors=True)
os.makedirs(out)
files = re.findall(r'^\+\+\+ [ab]/(\S+)', open(patch).read(), re.M)
for f in files:
    dst = os.path.join(out, "src", f)
    os.makedirs(os.path.dirname(dst), exist_ok=True)
    src = base.get("/repo/" + f, "/repo/" + f)   # patch on top of an instrumented copy if there is one
    if os.path.exists(src):
        shutil.copy(src, dst)
r = subprocess.run(["patch", "-p1", "-d", os.path.join(out, "src"), "-i", os.path.abspath(patch)], capture_output=True, text=True)
if r.returncode != 0:
    print(r.stdout, r.stderr); sys.exit(1)
rep = dict(base)
for f in files:
    rep["/repo/" + f] = os.path.abspath(os.path.join(out, "src", f))
json.dump({"Replace": rep}, open(os.path.join(out, "overlay.json"), "w"), indent=1)
