#!/usr/bin/env python3
"""mutoverlay.py <patch.diff> <outdir>
Applies a unified diff (paths relative to /repo, -p1) to COPIES of the touched /repo files and writes
<outdir>/overlay.json mapping the /repo paths to the patched copies. /repo itself is never touched.
Checks with an instrumentation recipe then instrument the patched copies (VERIF_MUT_OVERLAY)."""
import json, os, re, shutil, subprocess, sys
patch, out = sys.argv[1], sys.argv[2]
shutil.rmtree(out, ignore_errors=True)
os.makedirs(out)
files = re.findall(r'^\+\+\+ [ab]/(\S+)', open(patch).read(), re.M)
for f in files:
    dst = os.path.join(out, "src", f)
    os.makedirs(os.path.dirname(dst), exist_ok=True)
    if os.path.exists("/repo/" + f):
        shutil.copy("/repo/" + f, dst)
r = subprocess.run(["patch", "-p1", "-d", os.path.join(out, "src"), "-i", os.path.abspath(patch)], capture_output=True, text=True)
if r.returncode != 0:
    print(r.stdout, r.stderr); sys.exit(1)
rep = {}
for f in files:
    rep["/repo/" + f] = os.path.abspath(os.path.join(out, "src", f))
json.dump({"Replace": rep}, open(os.path.join(out, "overlay.json"), "w"), indent=1)
