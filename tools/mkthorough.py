#!/usr/bin/env python3
"""Summarises the thorough-tier evidence copies (.overlay/thorough-<ID>.json, written by the all-thorough pass)
into thorough_results.json, which tools/mkdesign.py prints under each check."""
import json, glob, os
# summaries of checks that were not re-run in this pass are kept
try:
    out = json.load(open('/verif/thorough_results.json'))
except Exception:
    out = {}
for p in sorted(glob.glob('/verif/.overlay/thorough-C*.json')):
    ev = json.load(open(p))
    if ev.get('tier') != 'thorough':
        continue
    c = ev['coverage']
    parts = []
    for k in ('states', 'transitions', 'executions', 'evaluations', 'distinct_nontrivial', 'traces_validated_against_impl'):
        if isinstance(c.get(k), int):
            parts.append('%s=%d' % (k, c[k]))
    s = '%s, exhaustive=%s, wall %.0f s, violations %d' % (', '.join(parts), str(c.get('exhaustive')).lower(), ev.get('wall_s', 0), ev.get('violations', 0))
    caps = c.get('caps_hit')
    if caps:
        s += '; caps: ' + '; '.join(sorted(set(caps)))[:300]
    out[ev['property_id']] = s
json.dump(out, open('/verif/thorough_results.json', 'w'), indent=1, sort_keys=True)
print(len(out), 'thorough summaries')
