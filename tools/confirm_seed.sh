#!/bin/bash
# Confirms one seeded change produced by a sub-agent, in its scratch worktree (never in /repo):
#   tools/confirm_seed.sh <ID> <k>      (reads /tmp/seed/<ID>.out/change<k>/)
# 1. patch applies on a clean checkout, tree builds; 2. the baseline's stable tests still pass with it;
# 3. the demonstration fails with the change and passes without it. Prints CONFIRMED or REJECTED: reason.
id=$1; k=$2
wt=/tmp/seed/$id; out=/tmp/seed/$id.out/change$k
export GOFLAGS=-mod=mod GOPROXY=off GOSUMDB=off GOTOOLCHAIN=local
cd $wt || exit 2
git checkout -q -- . ; git clean -fdq
[ -f $out/patch.diff ] || { echo "REJECTED: no patch.diff"; exit 1; }
git apply --check $out/patch.diff || { echo "REJECTED: patch does not apply"; exit 1; }
if git apply --numstat $out/patch.diff | awk '{print $3}' | grep -q '_test.go\|verif_export.go\|go.mod'; then echo "REJECTED: touches tests/hooks"; exit 1; fi
git apply $out/patch.diff
go build ./... 2>/tmp/seed/$id.build.err || { echo "REJECTED: does not build"; git checkout -q -- .; exit 1; }
# full suite, compared against the baseline's stable_pass list
# packages that listen on fixed ports (pkg/p2p, pkg/rpc) are run under a lock so that parallel confirmations do not collide
# RETRY_PORTS=1: second pass for a change whose first pass failed only in the timing-sensitive tests of pkg/p2p while the
# machine was loaded: the other packages' results of the first pass are kept, pkg/p2p and pkg/rpc are run again (up to 3 times)
if [ -n "${RETRY_PORTS:-}" ] && [ -f /tmp/seed/$id.c$k.test.json ]; then
  grep -v '"Package":"github.com/LiskHQ/lisk-engine/pkg/\(p2p\|rpc\)"' /tmp/seed/$id.c$k.test.json > /tmp/seed/$id.c$k.test.json.keep
  mv /tmp/seed/$id.c$k.test.json.keep /tmp/seed/$id.c$k.test.json
else
go test -json -vet=off -count=1 -timeout 25m $(go list ./... | grep -v '/pkg/p2p$\|/pkg/rpc$') > /tmp/seed/$id.c$k.test.json 2>/dev/null
fi
for try in 1 2 3; do
  flock /tmp/seed/ports.lock go test -json -vet=off -count=1 -timeout 25m ./pkg/p2p ./pkg/rpc > /tmp/seed/$id.c$k.ports.json 2>/dev/null
  if ! grep -q '"Action":"fail"' /tmp/seed/$id.c$k.ports.json; then break; fi
  [ -z "${RETRY_PORTS:-}" ] && break
done
cat /tmp/seed/$id.c$k.ports.json >> /tmp/seed/$id.c$k.test.json
python3 - /tmp/seed/$id.c$k.test.json <<'PY' || { cd $wt; git checkout -q -- .; git clean -fdq; exit 1; }
import json,sys
stable=set(json.load(open('/root/.vp/BASELINE.json'))['stable_pass'])
res={}
for l in open(sys.argv[1]):
    try: e=json.loads(l)
    except: continue
    if e.get('Test') and e.get('Action') in('pass','fail','skip'): res[e['Package']+'::'+e['Test']]=e['Action']
bad=[t for t in stable if res.get(t)!='pass']
if bad:
    print("REJECTED: existing tests fail with the change:",bad[:5]); sys.exit(1)
PY
cmd=$(python3 -c "import json;print(json.load(open('$out/meta.json'))['demo_cmd'])")
# a demo_cmd that does not copy the demonstration itself: put the test file(s) into the package the command tests
if ! echo "$cmd" | grep -q "cp "; then
  pkgdir=$(echo "$cmd" | grep -o '\./pkg/[A-Za-z0-9_/]*' | tail -1)
  [ -n "$pkgdir" ] && cmd="cp $out/*_test.go $pkgdir/ && $cmd"
fi
( eval "$cmd" ) > /tmp/seed/$id.c$k.demo_with.txt 2>&1; rc_with=$?
git apply -R $out/patch.diff
( eval "$cmd" ) > /tmp/seed/$id.c$k.demo_without.txt 2>&1; rc_without=$?
git checkout -q -- . ; git clean -fdq
if [ $rc_with -eq 0 ]; then echo "REJECTED: demonstration passes with the change"; exit 1; fi
if [ $rc_without -ne 0 ]; then echo "REJECTED: demonstration fails without the change"; tail -5 /tmp/seed/$id.c$k.demo_without.txt; exit 1; fi
echo "CONFIRMED $id change$k"
