#!/usr/bin/env python3
"""Regenerates the machine-written regions of DESIGN.md (between <!-- BEGIN:x --> and <!-- END:x -->) from
tools/checks.json, evidence/*.json, thorough_results.json, known_findings.json, mutants/RESULTS.json and seeded/*/*/meta.json."""
import json, glob, os, re
R = '/verif'
def load(p, d=None):
    try: return json.load(open(p))
    except Exception: return d
checks = load(R+'/tools/checks.json', {})
results = load(R+'/mutants/RESULTS.json', {})
thor = load(R+'/thorough_results.json', {})
kf = load(R+'/known_findings.json', {'findings': []})
props = {}
for l in open(R+'/properties.jsonl'):
    d = json.loads(l); props[d['id']] = d

def num(c, k):
    v = c.get(k)
    return v if isinstance(v, int) else None

def asbuilt():
    out = []
    for pid in sorted(checks):
        c = checks[pid]
        ev = load(R+'/evidence/%s.json' % pid, {})
        cov = ev.get('coverage', {})
        out.append('#### %s — %s' % (pid, props[pid]['title']))
        out.append('*Engine %s; %s.*' % (c.get('engine', '?'), c.get('technique', '')))
        out.append('')
        out.append(c.get('text', ''))
        if c.get('note'):
            out.append('')
            out.append('*Limits / assumptions:* ' + c['note'])
        q = []
        for k in ('states', 'transitions', 'executions', 'evaluations', 'distinct_nontrivial', 'traces_validated_against_impl'):
            if num(cov, k) is not None: q.append('%s=%d' % (k, cov[k]))
        if ev:
            out.append('')
            out.append('*Last %s run on the unchanged tree:* %s, exhaustive=%s, wall %.0f s, violations %d.' % (
                ev.get('tier', 'quick'), ', '.join(q), str(cov.get('exhaustive')).lower(), ev.get('wall_s', 0), ev.get('violations', 0)))
        t = thor.get(pid)
        if t:
            out.append('*Thorough run:* ' + t)
        out.append('')
    return '\n'.join(out)

def fixes():
    out = ['| property | commit | what failed (key in known_findings.json) |', '|---|---|---|']
    for f in kf['findings']:
        w = f['what']
        w = re.sub(r'^fixed: property=\S+ \S+ ', '', w)
        out.append('| %s | `%s` | %s (`%s`) |' % (f['property'], f.get('commit', '-'), w.replace('|', '\\|'), f['key'].replace('|', '\\|')))
    return '\n'.join(out)

def mutants():
    out = ['| check | change (mutants/<ID>/…) | caught | first violation reported |', '|---|---|---|---|']
    for m in sorted(results):
        if not m.startswith('mutants/'): continue
        r = results[m]
        out.append('| %s | %s | %s | %s |' % (r['property'], os.path.basename(m)[:-5], 'yes' if r['caught'] else ('BUILD/HARNESS ERROR' if r['harness_or_build_error'] else '**no**'),
                                            (r['first_violation'].split(' :: ')[0] if r['first_violation'] else '').replace('|', '\\|')))
    return '\n'.join(out)

def seeded():
    out = ['| property | seeded change | files | caught by its check | first violation reported |', '|---|---|---|---|---|']
    for mp in sorted(glob.glob(R+'/seeded/*/*/meta.json')):
        m = load(mp, {})
        d = os.path.dirname(mp)
        rel = os.path.relpath(d, R) + '/patch.diff'
        r = results.get(rel)
        caught = '(not run)'
        first = ''
        if r:
            caught = 'yes' if r['caught'] else ('ERROR' if r['harness_or_build_error'] else '**no**')
            first = (r['first_violation'].split(' :: ')[0] if r['first_violation'] else '')
        extra = m.get('also_caught_by')
        if extra: caught += ' (also: %s)' % extra
        if m.get('detection_note'): first += ' — ' + m['detection_note']
        out.append('| %s | %s | %s | %s | %s |' % (m.get('property', '?'), m.get('title', '?').replace('|', '\\|'), ', '.join(os.path.basename(f) for f in m.get('files', [])), caught, first.replace('|', '\\|')))
    return '\n'.join(out)

gen = {'asbuilt': asbuilt, 'fixes': fixes, 'mutants': mutants, 'seeded': seeded}
s = open(R+'/DESIGN.md').read()
for name, fn in gen.items():
    b, e = '<!-- BEGIN:%s -->' % name, '<!-- END:%s -->' % name
    if b in s and e in s:
        i, j = s.index(b) + len(b), s.index(e)
        s = s[:i] + '\n' + fn() + '\n' + s[j:]
open(R+'/DESIGN.md', 'w').write(s)
print('DESIGN.md regions regenerated')
