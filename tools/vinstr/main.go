// vinstr: syntactic instrumentation of repository files for the controlled scheduler.
//   vinstr -out DIR [-chan] [-rmw] file.go ...      (paths relative to /repo)
// Writes rewritten copies under DIR/src/... and DIR/overlay.json mapping the /repo paths to them, plus the
// verifrt runtime packages mounted under /repo/pkg/verifrt/. /repo itself is never modified.
package main

import (
	"bytes"
	"encoding/json"
	"flag"
	"fmt"
	"go/ast"
	"go/format"
	"go/parser"
	"go/token"
	"os"
	"path/filepath"
	"strconv"
	"strings"
)

const rt = "github.com/LiskHQ/lisk-engine/pkg/verifrt/"

var (
	outDir  = flag.String("out", "", "output directory")
	doChan  = flag.Bool("chan", false, "rewrite channel operations and select")
	doRMW   = flag.Bool("rmw", false, "split read-modify-write of captured variables inside goroutine bodies")
	counter = 0
)

func id(n string) *ast.Ident { return ast.NewIdent(n) }

func sel(pkg, name string) ast.Expr { return &ast.SelectorExpr{X: id(pkg), Sel: id(name)} }

func call(fn ast.Expr, args ...ast.Expr) *ast.CallExpr { return &ast.CallExpr{Fun: fn, Args: args} }

func strLit(s string) ast.Expr { return &ast.BasicLit{Kind: token.STRING, Value: strconv.Quote(s)} }

type rewriter struct {
	usesSched bool
	fset      *token.FileSet
}

func isRecv(e ast.Expr) (ast.Expr, bool) {
	if p, ok := e.(*ast.ParenExpr); ok {
		return isRecv(p.X)
	}
	if u, ok := e.(*ast.UnaryExpr); ok && u.Op == token.ARROW {
		return u.X, true
	}
	return nil, false
}

// rewriteExpr rewrites receive expressions and time.After inside an expression tree.
func (r *rewriter) rewriteExpr(e ast.Expr) ast.Expr {
	if e == nil {
		return nil
	}
	var out ast.Expr = e
	ast.Inspect(e, func(n ast.Node) bool { return true })
	switch x := e.(type) {
	case *ast.UnaryExpr:
		if x.Op == token.ARROW && *doChan {
			r.usesSched = true
			return call(sel("vsched", "ChanRecv"), r.rewriteExpr(x.X))
		}
		x.X = r.rewriteExpr(x.X)
	case *ast.CallExpr:
		if s, ok := x.Fun.(*ast.SelectorExpr); ok && *doChan {
			if p, ok := s.X.(*ast.Ident); ok && p.Name == "time" && s.Sel.Name == "After" {
				r.usesSched = true
				x.Fun = sel("vsched", "After")
			}
		}
		if f, ok := x.Fun.(*ast.Ident); ok && f.Name == "close" && len(x.Args) == 1 && *doChan {
			r.usesSched = true
			x.Fun = sel("vsched", "ChanClose")
		}
		x.Fun = r.rewriteExpr(x.Fun)
		for i := range x.Args {
			x.Args[i] = r.rewriteExpr(x.Args[i])
		}
	case *ast.ParenExpr:
		x.X = r.rewriteExpr(x.X)
	case *ast.BinaryExpr:
		x.X, x.Y = r.rewriteExpr(x.X), r.rewriteExpr(x.Y)
	case *ast.SelectorExpr:
		x.X = r.rewriteExpr(x.X)
	case *ast.IndexExpr:
		x.X, x.Index = r.rewriteExpr(x.X), r.rewriteExpr(x.Index)
	case *ast.StarExpr:
		x.X = r.rewriteExpr(x.X)
	case *ast.FuncLit:
		x.Body = r.rewriteBlock(x.Body, false)
	case *ast.CompositeLit:
		for i := range x.Elts {
			x.Elts[i] = r.rewriteExpr(x.Elts[i])
		}
	case *ast.KeyValueExpr:
		x.Value = r.rewriteExpr(x.Value)
	case *ast.TypeAssertExpr:
		x.X = r.rewriteExpr(x.X)
	case *ast.SliceExpr:
		x.X = r.rewriteExpr(x.X)
	}
	return out
}

func (r *rewriter) rewriteBlock(b *ast.BlockStmt, inGo bool) *ast.BlockStmt {
	if b == nil {
		return nil
	}
	nl := []ast.Stmt{}
	for _, s := range b.List {
		nl = append(nl, r.rewriteStmt(s, inGo)...)
	}
	b.List = nl
	return b
}

func declaredIn(body *ast.BlockStmt) map[string]bool {
	d := map[string]bool{}
	ast.Inspect(body, func(n ast.Node) bool {
		switch x := n.(type) {
		case *ast.AssignStmt:
			if x.Tok == token.DEFINE {
				for _, l := range x.Lhs {
					if i, ok := l.(*ast.Ident); ok {
						d[i.Name] = true
					}
				}
			}
		case *ast.ValueSpec:
			for _, i := range x.Names {
				d[i.Name] = true
			}
		case *ast.RangeStmt:
			if i, ok := x.Key.(*ast.Ident); ok && x.Tok == token.DEFINE {
				d[i.Name] = true
			}
			if i, ok := x.Value.(*ast.Ident); ok && x.Tok == token.DEFINE {
				d[i.Name] = true
			}
		}
		return true
	})
	return d
}

var goLocals []map[string]bool

func captured(name string) bool {
	if len(goLocals) == 0 {
		return false
	}
	return !goLocals[len(goLocals)-1][name]
}

// goBody rewrites the body of a function literal that runs as its own thread.
func (r *rewriter) goBody(fl *ast.FuncLit) {
	loc := declaredIn(fl.Body)
	if fl.Type.Params != nil {
		for _, f := range fl.Type.Params.List {
			for _, n := range f.Names {
				loc[n.Name] = true
			}
		}
	}
	goLocals = append(goLocals, loc)
	fl.Body = r.rewriteBlock(fl.Body, true)
	goLocals = goLocals[:len(goLocals)-1]
}

func (r *rewriter) rewriteStmt(s ast.Stmt, inGo bool) []ast.Stmt {
	switch x := s.(type) {
	case *ast.GoStmt:
		r.usesSched = true
		stmts := []ast.Stmt{}
		args := []ast.Expr{}
		for _, a := range x.Call.Args {
			counter++
			tmp := id(fmt.Sprintf("_vg%d", counter))
			stmts = append(stmts, &ast.AssignStmt{Lhs: []ast.Expr{tmp}, Tok: token.DEFINE, Rhs: []ast.Expr{r.rewriteExpr(a)}})
			args = append(args, tmp)
		}
		fn := x.Call.Fun
		if fl, ok := fn.(*ast.FuncLit); ok {
			r.goBody(fl)
		} else {
			fn = r.rewriteExpr(fn)
		}
		inner := &ast.FuncLit{Type: &ast.FuncType{Params: &ast.FieldList{}}, Body: &ast.BlockStmt{List: []ast.Stmt{&ast.ExprStmt{X: &ast.CallExpr{Fun: fn, Args: args, Ellipsis: x.Call.Ellipsis}}}}}
		stmts = append(stmts, &ast.ExprStmt{X: call(sel("vsched", "Go"), strLit("go@"+r.fset.Position(x.Pos()).String()[strings.LastIndex(r.fset.Position(x.Pos()).String(), "/")+1:]), inner)})
		return []ast.Stmt{&ast.BlockStmt{List: stmts}}
	case *ast.SendStmt:
		if *doChan {
			r.usesSched = true
			return []ast.Stmt{&ast.ExprStmt{X: call(sel("vsched", "ChanSend"), r.rewriteExpr(x.Chan), r.rewriteExpr(x.Value))}}
		}
	case *ast.ExprStmt:
		// eg.Go(func() error {...}) : body runs as its own thread
		if c, ok := x.X.(*ast.CallExpr); ok {
			if se, ok := c.Fun.(*ast.SelectorExpr); ok && se.Sel.Name == "Go" && len(c.Args) == 1 {
				if fl, ok := c.Args[0].(*ast.FuncLit); ok {
					r.goBody(fl)
					se.X = r.rewriteExpr(se.X)
					return []ast.Stmt{x}
				}
			}
		}
		x.X = r.rewriteExpr(x.X)
	case *ast.AssignStmt:
		if *doChan && len(x.Lhs) == 2 && len(x.Rhs) == 1 {
			if ch, ok := isRecv(x.Rhs[0]); ok {
				r.usesSched = true
				x.Rhs[0] = call(sel("vsched", "ChanRecv2"), r.rewriteExpr(ch))
				return []ast.Stmt{x}
			}
		}
		for i := range x.Rhs {
			x.Rhs[i] = r.rewriteExpr(x.Rhs[i])
		}
		if *doRMW && inGo && len(x.Lhs) == 1 && len(x.Rhs) == 1 {
			if l, ok := x.Lhs[0].(*ast.Ident); ok && captured(l.Name) {
				// x = append(x, ...)  /  x op= y   on a variable captured from the enclosing function
				isAppend := false
				if c, ok := x.Rhs[0].(*ast.CallExpr); ok {
					if f, ok := c.Fun.(*ast.Ident); ok && f.Name == "append" && len(c.Args) > 0 {
						if a0, ok := c.Args[0].(*ast.Ident); ok && a0.Name == l.Name {
							isAppend = true
						}
					}
				}
				if (x.Tok == token.ASSIGN && isAppend) || (x.Tok != token.ASSIGN && x.Tok != token.DEFINE) {
					r.usesSched = true
					counter++
					tmp := id(fmt.Sprintf("_vr%d", counter))
					var rhs ast.Expr = x.Rhs[0]
					if x.Tok != token.ASSIGN {
						op := map[token.Token]token.Token{token.ADD_ASSIGN: token.ADD, token.SUB_ASSIGN: token.SUB, token.MUL_ASSIGN: token.MUL, token.OR_ASSIGN: token.OR, token.AND_ASSIGN: token.AND}[x.Tok]
						rhs = &ast.BinaryExpr{X: id(l.Name), Op: op, Y: &ast.ParenExpr{X: x.Rhs[0]}}
					}
					return []ast.Stmt{
						&ast.AssignStmt{Lhs: []ast.Expr{tmp}, Tok: token.DEFINE, Rhs: []ast.Expr{rhs}},
						&ast.ExprStmt{X: call(sel("vsched", "Point"), strLit("unsynchronised read-modify-write of "+l.Name))},
						&ast.AssignStmt{Lhs: []ast.Expr{id(l.Name)}, Tok: token.ASSIGN, Rhs: []ast.Expr{tmp}},
					}
				}
			}
		}
	case *ast.IncDecStmt:
		if *doRMW && inGo {
			if l, ok := x.X.(*ast.Ident); ok && captured(l.Name) {
				r.usesSched = true
				counter++
				tmp := id(fmt.Sprintf("_vr%d", counter))
				op := token.ADD
				if x.Tok == token.DEC {
					op = token.SUB
				}
				return []ast.Stmt{
					&ast.AssignStmt{Lhs: []ast.Expr{tmp}, Tok: token.DEFINE, Rhs: []ast.Expr{&ast.BinaryExpr{X: id(l.Name), Op: op, Y: &ast.BasicLit{Kind: token.INT, Value: "1"}}}},
					&ast.ExprStmt{X: call(sel("vsched", "Point"), strLit("unsynchronised read-modify-write of "+l.Name))},
					&ast.AssignStmt{Lhs: []ast.Expr{id(l.Name)}, Tok: token.ASSIGN, Rhs: []ast.Expr{tmp}},
				}
			}
		}
	case *ast.BlockStmt:
		r.rewriteBlock(x, inGo)
	case *ast.IfStmt:
		if x.Init != nil {
			x.Init = r.rewriteStmt(x.Init, inGo)[0]
		}
		x.Cond = r.rewriteExpr(x.Cond)
		r.rewriteBlock(x.Body, inGo)
		if x.Else != nil {
			x.Else = r.rewriteStmt(x.Else, inGo)[0]
		}
	case *ast.ForStmt:
		if x.Cond != nil {
			x.Cond = r.rewriteExpr(x.Cond)
		}
		r.rewriteBlock(x.Body, inGo)
	case *ast.RangeStmt:
		x.X = r.rewriteExpr(x.X)
		r.rewriteBlock(x.Body, inGo)
	case *ast.SwitchStmt:
		if x.Tag != nil {
			x.Tag = r.rewriteExpr(x.Tag)
		}
		for _, c := range x.Body.List {
			cc := c.(*ast.CaseClause)
			nl := []ast.Stmt{}
			for _, s := range cc.Body {
				nl = append(nl, r.rewriteStmt(s, inGo)...)
			}
			cc.Body = nl
		}
	case *ast.TypeSwitchStmt:
		for _, c := range x.Body.List {
			cc := c.(*ast.CaseClause)
			nl := []ast.Stmt{}
			for _, s := range cc.Body {
				nl = append(nl, r.rewriteStmt(s, inGo)...)
			}
			cc.Body = nl
		}
	case *ast.DeferStmt:
		x.Call = r.rewriteExpr(x.Call).(*ast.CallExpr)
	case *ast.ReturnStmt:
		for i := range x.Results {
			x.Results[i] = r.rewriteExpr(x.Results[i])
		}
	case *ast.DeclStmt:
		if g, ok := x.Decl.(*ast.GenDecl); ok {
			for _, sp := range g.Specs {
				if vs, ok := sp.(*ast.ValueSpec); ok {
					for i := range vs.Values {
						vs.Values[i] = r.rewriteExpr(vs.Values[i])
					}
				}
			}
		}
	case *ast.LabeledStmt:
		x.Stmt = r.rewriteStmt(x.Stmt, inGo)[0]
	case *ast.SelectStmt:
		if *doChan {
			return r.rewriteSelect(x, inGo)
		}
		for _, c := range x.Body.List {
			cc := c.(*ast.CommClause)
			nl := []ast.Stmt{}
			for _, s := range cc.Body {
				nl = append(nl, r.rewriteStmt(s, inGo)...)
			}
			cc.Body = nl
		}
	}
	return []ast.Stmt{s}
}

func (r *rewriter) rewriteSelect(x *ast.SelectStmt, inGo bool) []ast.Stmt {
	r.usesSched = true
	// select { case ch <- v: A; default: B }  ->  if vsched.TrySend(ch, v) { A } else { B }
	if len(x.Body.List) == 2 {
		var sendC, defC *ast.CommClause
		for _, c := range x.Body.List {
			cc := c.(*ast.CommClause)
			if cc.Comm == nil {
				defC = cc
			} else if _, ok := cc.Comm.(*ast.SendStmt); ok {
				sendC = cc
			}
		}
		if sendC != nil && defC != nil {
			snd := sendC.Comm.(*ast.SendStmt)
			a, b := []ast.Stmt{}, []ast.Stmt{}
			for _, s := range sendC.Body {
				a = append(a, r.rewriteStmt(s, inGo)...)
			}
			for _, s := range defC.Body {
				b = append(b, r.rewriteStmt(s, inGo)...)
			}
			return []ast.Stmt{&ast.IfStmt{Cond: call(sel("vsched", "TrySend"), r.rewriteExpr(snd.Chan), r.rewriteExpr(snd.Value)),
				Body: &ast.BlockStmt{List: a}, Else: &ast.BlockStmt{List: b}}}
		}
	}
	pre := []ast.Stmt{}
	cases := []ast.Expr{}
	clauses := []ast.Stmt{}
	hasDefault := false
	idx := 0
	for _, c := range x.Body.List {
		cc := c.(*ast.CommClause)
		body := []ast.Stmt{}
		for _, s := range cc.Body {
			body = append(body, r.rewriteStmt(s, inGo)...)
		}
		if cc.Comm == nil {
			hasDefault = true
			clauses = append(clauses, &ast.CaseClause{List: []ast.Expr{&ast.UnaryExpr{Op: token.SUB, X: &ast.BasicLit{Kind: token.INT, Value: "1"}}}, Body: body})
			continue
		}
		var chExpr ast.Expr
		var lhs []ast.Expr
		tok := token.ASSIGN
		switch cm := cc.Comm.(type) {
		case *ast.ExprStmt:
			ch, ok := isRecv(cm.X)
			if !ok {
				panic("vinstr: unsupported select case at " + r.fset.Position(cm.Pos()).String())
			}
			chExpr = ch
		case *ast.AssignStmt:
			ch, ok := isRecv(cm.Rhs[0])
			if !ok {
				panic("vinstr: unsupported select case at " + r.fset.Position(cm.Pos()).String())
			}
			chExpr, lhs, tok = ch, cm.Lhs, cm.Tok
		default:
			panic("vinstr: send cases in select are not supported: " + r.fset.Position(cc.Pos()).String())
		}
		counter++
		cv := id(fmt.Sprintf("_vs%d", counter))
		pre = append(pre, &ast.AssignStmt{Lhs: []ast.Expr{cv}, Tok: token.DEFINE, Rhs: []ast.Expr{r.rewriteExpr(chExpr)}})
		cases = append(cases, call(sel("vsched", "RecvCase"), cv))
		recv := call(sel("vsched", "SelectRecv"), cv)
		var first ast.Stmt
		switch len(lhs) {
		case 0:
			first = &ast.ExprStmt{X: recv}
		case 1:
			first = &ast.AssignStmt{Lhs: []ast.Expr{lhs[0], id("_")}, Tok: tok, Rhs: []ast.Expr{recv}}
		default:
			first = &ast.AssignStmt{Lhs: lhs, Tok: tok, Rhs: []ast.Expr{recv}}
		}
		body = append([]ast.Stmt{first}, body...)
		clauses = append(clauses, &ast.CaseClause{List: []ast.Expr{&ast.BasicLit{Kind: token.INT, Value: strconv.Itoa(idx)}}, Body: body})
		idx++
	}
	clauses = append(clauses, &ast.CaseClause{List: nil, Body: []ast.Stmt{&ast.ExprStmt{X: call(id("panic"), strLit("vsched.Select returned an unknown case"))}}})
	hd := id("false")
	if hasDefault {
		hd = id("true")
	}
	sw := &ast.SwitchStmt{Tag: call(sel("vsched", "Select"), append([]ast.Expr{hd}, cases...)...), Body: &ast.BlockStmt{List: clauses}}
	return []ast.Stmt{&ast.BlockStmt{List: append(pre, sw)}}
}

func instrument(path string) ([]byte, error) {
	fset := token.NewFileSet()
	f, err := parser.ParseFile(fset, path, nil, parser.ParseComments)
	if err != nil {
		return nil, err
	}
	r := &rewriter{fset: fset}
	for _, im := range f.Imports {
		p, _ := strconv.Unquote(im.Path.Value)
		switch p {
		case "sync":
			im.Path.Value = strconv.Quote(rt + "vsync")
			im.Name = id("sync")
		case "golang.org/x/sync/errgroup":
			im.Path.Value = strconv.Quote(rt + "verrgroup")
			im.Name = id("errgroup")
		}
	}
	for _, d := range f.Decls {
		if fd, ok := d.(*ast.FuncDecl); ok && fd.Body != nil {
			r.rewriteBlock(fd.Body, false)
		}
	}
	var buf bytes.Buffer
	f.Comments = nil // positions of rewritten nodes are gone; comments would be misplaced
	if err := format.Node(&buf, fset, f); err != nil {
		return nil, err
	}
	src := buf.String()
	if r.usesSched {
		// add the vsched import after the package clause
		i := strings.Index(src, "\nimport")
		if i < 0 {
			i = strings.Index(src, "\n")
		}
		src = src[:i] + "\nimport vsched \"" + rt + "vsched\"\n" + src[i:]
	}
	// "time" may have become unused
	if !strings.Contains(strings.Replace(src, "\"time\"", "", 1), "time.") {
		src = strings.Replace(src, "\t\"time\"\n", "", 1)
	}
	out, err := format.Source([]byte(src))
	if err != nil {
		return []byte(src), fmt.Errorf("format: %w", err)
	}
	return out, nil
}

func main() {
	flag.Parse()
	if *outDir == "" {
		fmt.Println("need -out")
		os.Exit(2)
	}
	_ = os.RemoveAll(*outDir)
	replace := map[string]string{}
	abs, _ := filepath.Abs(*outDir)
	// a mutant overlay (deliberately broken copies of repository files) is instrumented instead of the originals
	mut := map[string]string{}
	if mo := os.Getenv("VERIF_MUT_OVERLAY"); mo != "" {
		var m struct{ Replace map[string]string }
		if b, err := os.ReadFile(mo); err == nil && json.Unmarshal(b, &m) == nil {
			mut = m.Replace
		}
	}
	for k, v := range mut {
		replace[k] = v
	}
	for _, rel := range flag.Args() {
		in := filepath.Join("/repo", rel)
		if m, ok := mut[in]; ok {
			in = m
		}
		src, err := instrument(in)
		dst := filepath.Join(abs, "src", rel)
		_ = os.MkdirAll(filepath.Dir(dst), 0o755)
		if src != nil {
			_ = os.WriteFile(dst, src, 0o644)
		}
		if err != nil {
			fmt.Println("vinstr:", rel, err)
			os.Exit(1)
		}
		replace[filepath.Join("/repo", rel)] = dst
	}
	// mount the runtime under the repository's import path
	for _, p := range []string{"vsched", "vsync", "verrgroup"} {
		files, _ := filepath.Glob("/verif/verifrt/" + p + "/*.go")
		for _, f := range files {
			replace["/repo/pkg/verifrt/"+p+"/"+filepath.Base(f)] = f
		}
	}
	b, _ := json.MarshalIndent(map[string]interface{}{"Replace": replace}, "", " ")
	if err := os.WriteFile(filepath.Join(abs, "overlay.json"), b, 0o644); err != nil {
		fmt.Println(err)
		os.Exit(1)
	}
}
