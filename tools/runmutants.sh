#!/bin/bash
# Runs every stored mutant (mutants/<ID>/*.diff) and every kept seeded change (seeded/<ID>/*/patch.diff) through
# the quick tier of its check via the build overlay (the working tree of /repo is never touched) and records
# the outcome in mutants/RESULTS.json. Usage: tools/runmutants.sh [ID ...]
cd "$(dirname "$0")/.."
ids="$@"
[ -z "$ids" ] && ids=$(ls mutants | grep '^C' ; ls seeded 2>/dev/null | grep '^C')
ids=$(echo $ids | tr ' ' '\n' | sort -u)
mkdir -p .overlay
for id in $ids; do
  for m in mutants/$id/*.diff seeded/$id/*/patch.diff; do
    [ -f "$m" ] || continue
    if [ -n "${ONLY_PATTERN:-}" ] && ! echo "$m" | grep -q "$ONLY_PATTERN"; then continue; fi
    s=$(date +%s)
    out=$(timeout 3600 ./vcheck $id --mutant $m 2>&1)
    rc=$?
    e=$(date +%s)
    first=$(echo "$out" | grep -a '^DETAIL' | head -1 | sed 's/^DETAIL property=[A-Z0-9]* key=//' | cut -c1-160)
    nv=$(echo "$out" | grep -a '^SUMMARY' | sed 's/.*violations=\([0-9]*\).*/\1/')
    herr=$(echo "$out" | grep -a -c 'HARNESS-ERROR\|BUILD-ERROR')
    python3 - "$id" "$m" "$rc" "$nv" "$herr" "$((e-s))" "$first" <<'PY'
import json,sys,os
id,m,rc,nv,herr,secs,first=sys.argv[1:8]
p='mutants/RESULTS.json'
d=json.load(open(p)) if os.path.exists(p) else {}
d[m]={"property":id,"exit":int(rc),"violations":int(nv or 0),"harness_or_build_error":int(herr)>0,"seconds":int(secs),"first_violation":first,
      "caught":int(rc)==1 and int(nv or 0)>0}
json.dump(d,open(p,'w'),indent=1,sort_keys=True)
PY
    echo "$id $m rc=$rc violations=$nv ${first:0:100}"
  done
done
