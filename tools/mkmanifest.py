#!/usr/bin/env python3
"""Regenerates /verif/MANIFEST.json from the table below (single source of truth)."""
import json, subprocess, os
ROOT = os.path.dirname(os.path.dirname(os.path.abspath(__file__)))
ALL = ["C%02d" % i for i in range(1, 21)]
ENV = "GOFLAGS=-mod=mod GOPROXY=off GOSUMDB=off GOTOOLCHAIN=local"
CHECKS = json.load(open(os.path.join(ROOT, "tools", "checks.json")))
hooks = [l.split()[0] for l in subprocess.run(["git", "-C", "/repo", "log", "--format=%h %s"], capture_output=True, text=True).stdout.splitlines() if " verif hook" in l]
m = {
 "version": 1,
 "setup_cmd": "cd /verif && ./setup.sh",
 "hooks": {
  "guard": "verif",
  "enable": "go build -tags verif (plus a -overlay generated at check time from /repo's working tree for the scheduler-instrumented checks)",
  "baseline_off_cmd": "cd /repo && " + ENV + " go test -vet=off -count=1 -timeout 25m ./...",
  "source_commits": hooks,
  "add_only": True,
 },
 "engines": [
  {"name": "E1 explicit-state search", "path": "bftwalk/, checks/*", "serves_properties": [c for c in CHECKS if CHECKS[c].get("engine") == "E1"], "kind_free_text": "hand-written explicit-state / deviation-bounded DFS whose transition function is a call into /repo"},
  {"name": "E2 controlled scheduler", "path": "vsched/, tools/vinstr", "serves_properties": [c for c in CHECKS if CHECKS[c].get("engine") == "E2"], "kind_free_text": "cooperative scheduler + source instrumentation via go build -overlay; preemption-bounded exhaustive interleaving search"},
  {"name": "E3 crash-point enumeration", "path": "crashfs/", "serves_properties": [c for c in CHECKS if CHECKS[c].get("engine") == "E3"], "kind_free_text": "pebble on a strict in-memory FS, crash at every FS mutation boundary"},
  {"name": "E4 bounded-exhaustive input enumeration", "path": "checks/*", "serves_properties": [c for c in CHECKS if CHECKS[c].get("engine") == "E4"], "kind_free_text": "complete enumeration of finite input families against universal / reference oracles"},
 ],
 "checks": [],
 "not_applicable": [],
 "notes": "All checks: ./vcheck <id> [--tier quick|thorough] [--replay file]; see DESIGN.md.",
}
for pid in ALL:
    c = CHECKS.get(pid)
    if not c or not c.get("claimed", True):
        m["not_applicable"].append({"property_id": pid, "reason": (c or {}).get("reason", "check not built yet in this round (planned, see DESIGN.md section 2)")})
        continue
    m["checks"].append({
        "property_id": pid,
        "quick_cmd": "./vcheck %s --tier quick" % pid,
        "thorough_cmd": "./vcheck %s --tier thorough" % pid,
        "evidence_file": "/verif/evidence/%s.json" % pid,
        "replay_cmd_template": "./vcheck %s --replay {path}" % pid,
        "engine": c["engine"],
        "level_claimed": {"category": c["level"], "text": c["text"], "design_ref": c.get("design_ref", "DESIGN.md section 2 " + pid)},
        "level_note": c["note"],
        "technique": c["technique"],
    })
json.dump(m, open(os.path.join(ROOT, "MANIFEST.json"), "w"), indent=1)
print("claimed:", [c["property_id"] for c in m["checks"]])
