package conc

import (
	"bytes"
	"context"
	"fmt"
	"io"
	"os"
	"strings"
	"sync"
	"time"

	"github.com/libp2p/go-libp2p/core/host"
	"github.com/libp2p/go-libp2p/core/network"
	"github.com/libp2p/go-libp2p/core/peer"
	"github.com/libp2p/go-libp2p/core/protocol"
	ma "github.com/multiformats/go-multiaddr"

	"github.com/LiskHQ/lisk-engine/pkg/log"
	"github.com/LiskHQ/lisk-engine/pkg/p2p"
	"github.com/LiskHQ/lisk-engine/pkg/verifrt/vsched"
)

// ---- in-memory transport for the message protocol ------------------------------------------------

type FakeNet struct {
	mu        sync.Mutex
	eps       map[peer.ID]*Endpoint
	DupRes    bool // deliver every response twice
	Log       []string
	inflight  vsched.Group
	reqCount  int
	attemptOf map[int]int // controlled thread id -> request attempt it is serving
	released  bool        // the hung stream open may return
	relCh     chan struct{}
}

// HungPeer never answers a stream open until FakeNet.Release is called; GhostPeer is unknown to the network.
const (
	HungPeer  = peer.ID("peerHung")
	GhostPeer = peer.ID("peerGhost")
)

// waitReleased blocks until Release (controlled: a blocking point; free-running: the channel).
func (n *FakeNet) waitReleased(label string) {
	if vsched.Active() {
		vsched.Block(label, func() bool {
			n.mu.Lock()
			defer n.mu.Unlock()
			return n.released
		})
		return
	}
	<-n.relCh
}

// waitSent blocks until k requests have been handed to the network.
func (n *FakeNet) waitSent(k int) {
	pred := func() bool {
		n.mu.Lock()
		defer n.mu.Unlock()
		return n.reqCount >= k
	}
	if vsched.Active() {
		vsched.Block("all-requests-sent", pred)
		return
	}
	for !pred() {
		time.Sleep(time.Millisecond)
	}
}

func (n *FakeNet) Release() {
	n.mu.Lock()
	if !n.released {
		n.released = true
		close(n.relCh)
	}
	n.mu.Unlock()
}

type Endpoint struct {
	ID  peer.ID
	MP  *p2p.MessageProtocol
	net *FakeNet
	ctx context.Context
}

func (n *FakeNet) note(s string) {
	n.mu.Lock()
	n.Log = append(n.Log, s)
	n.mu.Unlock()
}

type fakeHost struct {
	host.Host
	ep *Endpoint
}

func (h *fakeHost) ID() peer.ID { return h.ep.ID }
func (h *fakeHost) NewStream(ctx context.Context, p peer.ID, pids ...protocol.ID) (network.Stream, error) {
	if p == HungPeer {
		// a peer that accepts the connection and never completes the handshake: the stream open stays blocked
		// until the harness releases it (after the other requests have returned)
		h.ep.net.note("send-hangs")
		if vsched.Active() {
			vsched.Block("stream-open-to-hung-peer", func() bool {
				h.ep.net.mu.Lock()
				defer h.ep.net.mu.Unlock()
				return h.ep.net.released
			})
		} else {
			<-h.ep.net.relCh // free-running race pass: real goroutines
		}
		return nil, fmt.Errorf("handshake with %s timed out", p)
	}
	if _, ok := h.ep.net.eps[p]; !ok {
		return nil, fmt.Errorf("no route to %s", p)
	}
	return &outStream{net: h.ep.net, from: h.ep.ID, to: p, proto: pids[0]}, nil
}

type outStream struct {
	network.Stream
	net     *FakeNet
	from    peer.ID
	to      peer.ID
	proto   protocol.ID
	buf     bytes.Buffer
	closed  bool
	attempt int
}

func (s *outStream) Write(b []byte) (int, error) { return s.buf.Write(b) }
func (s *outStream) Close() error {
	if s.closed {
		return nil
	}
	s.closed = true
	if strings.Contains(string(s.proto), "/req/") {
		s.net.mu.Lock()
		s.net.reqCount++
		s.attempt = s.net.reqCount
		s.net.mu.Unlock()
		s.net.note(fmt.Sprintf("req-sent:%d", s.attempt))
	} else {
		s.net.mu.Lock()
		s.attempt = s.net.attemptOf[vsched.ThreadID()] // the response is written by the thread serving the request
		s.net.mu.Unlock()
	}
	s.net.deliver(s.from, s.to, s.proto, s.buf.Bytes(), s.attempt)
	return nil
}
func (s *outStream) Reset() error { s.closed = true; return nil }

type inStream struct {
	network.Stream
	r    *bytes.Reader
	conn *fakeNetConn
}

func (s *inStream) Read(b []byte) (int, error) { return s.r.Read(b) }
func (s *inStream) Close() error               { return nil }
func (s *inStream) Reset() error               { return nil }
func (s *inStream) Conn() network.Conn         { return s.conn }

type fakeNetConn struct {
	network.Conn
	remote peer.ID
}

func (c *fakeNetConn) RemotePeer() peer.ID { return c.remote }
func (c *fakeNetConn) RemoteMultiaddr() ma.Multiaddr {
	a, _ := ma.NewMultiaddr("/ip4/10.0.0.7/tcp/4001")
	return a
}

var _ io.Reader = (*inStream)(nil)

func (n *FakeNet) deliver(from, to peer.ID, proto protocol.ID, data []byte, attempt int) {
	target := n.eps[to]
	isRes := strings.Contains(string(proto), "/res/")
	copies := 1
	if isRes && n.DupRes {
		copies = 2
	}
	for i := 0; i < copies; i++ {
		d := append([]byte{}, data...)
		n.inflight.Go("net", func() {
			s := &inStream{r: bytes.NewReader(d), conn: &fakeNetConn{remote: from}}
			if isRes {
				target.MP.VerifOnResponse(s)
				n.note(fmt.Sprintf("res-delivered:%d", attempt))
			} else {
				n.note(fmt.Sprintf("req-delivered:%d", attempt))
				n.mu.Lock()
				n.attemptOf[vsched.ThreadID()] = attempt
				n.mu.Unlock()
				target.MP.VerifOnRequest(target.ctx, s)
			}
		})
	}
}

func NewFakeNet() *FakeNet {
	return &FakeNet{eps: map[peer.ID]*Endpoint{}, attemptOf: map[int]int{}, relCh: make(chan struct{})}
}

func (n *FakeNet) AddNode(name string, timeout time.Duration, handlers map[string]p2p.RPCHandler) *Endpoint {
	ep := &Endpoint{ID: peer.ID(name), net: n, ctx: context.Background()}
	mp, err := p2p.VerifNewMessageProtocol([]byte{1, 2, 3, 4}, "1.0", &fakeHost{ep: ep}, &recLogger{Logger: poolLogger, net: n}, timeout)
	if err != nil {
		panic(err)
	}
	for name, h := range handlers {
		if err := mp.RegisterRPCHandler(name, h); err != nil {
			panic(err)
		}
	}
	mp.VerifStart()
	ep.MP = mp
	n.eps[ep.ID] = ep
	return ep
}

// Echo handler: answers with the request payload prefixed by "echo:".
func EchoHandler(w p2p.ResponseWriter, r *p2p.Request) {
	w.Write(append([]byte("echo:"), r.Data...))
}

type P2PScenario struct {
	Name       string
	Requesters int
	DupRes     bool
	Cancel     bool
	Timeouts   int  // how many timeout timers may fire in one execution
	Ghost      bool // one more request goes to a peer the network does not know (the send fails)
	Hung       bool // one more request goes to a peer whose stream open hangs until all other requests returned
	TwoPeers   bool // the requesters ask two different peers the same question (same procedure, same payload)
	CancelLate bool // the responder is slow and the canceller waits until every request has been sent: all requesters are cancelled while waiting
}

// Body runs the scenario once and reports violations through vsched.Fail.
func (sc P2PScenario) Body(timeout time.Duration) func() {
	return func() {
		net := NewFakeNet()
		net.DupRes = sc.DupRes
		a := net.AddNode("peerA", timeout, map[string]p2p.RPCHandler{"echo": EchoHandler})
		responder := p2p.RPCHandler(EchoHandler)
		if sc.CancelLate {
			responder = func(w p2p.ResponseWriter, r *p2p.Request) { net.waitReleased("slow-handler"); EchoHandler(w, r) }
		}
		net.AddNode("peerB", timeout, map[string]p2p.RPCHandler{"echo": responder})
		if sc.TwoPeers {
			net.AddNode("peerC", timeout, map[string]p2p.RPCHandler{"echo": func(w p2p.ResponseWriter, r *p2p.Request) {
				w.Write(append([]byte("echoC:"), r.Data...))
			}})
		}
		vsched.TimerHook = func() { net.note("timer") }
		vsched.TimerBudget = sc.Timeouts
		ctx, cancel := vsched.WithCancel(context.Background())
		var g vsched.Group
		results := make([]string, sc.Requesters)
		for i := 0; i < sc.Requesters; i++ {
			i := i
			g.Go(fmt.Sprintf("requester-%d", i), func() {
				payload := []byte(fmt.Sprintf("nonce-%d", i))
				target, prefix := peer.ID("peerB"), "echo:"
				if sc.TwoPeers {
					payload = []byte("same-question")
					if i%2 == 1 {
						target, prefix = peer.ID("peerC"), "echoC:"
					}
				}
				net.note(fmt.Sprintf("request-%d-start", i))
				res := a.MP.RequestFrom(ctx, target, "echo", payload)
				switch {
				case res.Error() != nil:
					results[i] = "error:" + res.Error().Error()
				case string(res.Data()) == prefix+string(payload):
					results[i] = "ok"
				default:
					results[i] = "WRONG:" + string(res.Data())
				}
				net.note(fmt.Sprintf("request-%d-returns-%s", i, results[i]))
			})
		}
		if sc.Cancel {
			g.Go("canceller", func() {
				if sc.CancelLate {
					net.waitSent(sc.Requesters)
				}
				cancel()
			})
		}
		extra := ""
		var gx vsched.Group
		if sc.Ghost {
			gx.Go("requester-ghost", func() {
				res := a.MP.RequestFrom(ctx, GhostPeer, "echo", []byte("to-nobody"))
				if res.Error() == nil {
					extra = "request to an unknown peer returned no error"
				}
			})
		}
		if sc.Hung {
			gx.Go("requester-hung", func() {
				res := a.MP.RequestFrom(ctx, HungPeer, "echo", []byte("to-hung-peer"))
				if res.Error() == nil {
					extra = "request to the hung peer returned no error"
				}
			})
		}
		g.Wait()
		// the other requests have returned while the hung send was still pending: only now does it give up
		net.Release()
		gx.Wait()
		if extra != "" {
			vsched.Fail(extra)
		}
		net.inflight.Wait()
		if os.Getenv("C17_DEBUG") != "" {
			fmt.Fprintln(os.Stderr, "C17_DEBUG", sc.Name, results, net.Log)
		}
		for i, r := range results {
			if strings.HasPrefix(r, "WRONG") {
				vsched.Fail(fmt.Sprintf("request %d received the response of another request: %s", i, r))
			}
			vsched.Note(fmt.Sprintf("r%d=%s", i, strings.SplitN(r, ":", 2)[0]))
		}
		if n := a.MP.VerifPending(); n != 0 {
			vsched.Fail(fmt.Sprintf("pending-entry-leaked: %d response channels left registered after all requests returned", n))
		}
		// lost reply: single requester only (timers are not attributable otherwise)
		if sc.Requesters == 1 && !sc.Cancel {
			if lost := lostReply(net.Log, results[0]); lost != "" {
				vsched.Fail(lost)
			}
			if lost := acceptedResponses(net.Log, results[0]); lost != "" && !sc.Ghost && !sc.Hung && !sc.DupRes { // a duplicated response may be accepted twice (after the requester took the first from the channel and before it unregistered): nothing is lost then
				vsched.Fail(lost)
			}
		}
	}
}

// recLogger notes in the event log what onResponse says about a response it could not hand over: the request ID is not
// registered (any more), or the request's channel already holds a response.
type recLogger struct {
	log.Logger
	net *FakeNet
}

func (l *recLogger) Warningf(msg string, others ...interface{}) {
	switch {
	case strings.Contains(msg, "unknown request ID"):
		l.net.note("res-unknown")
	case strings.Contains(msg, "Duplicate response"):
		l.net.note("res-duplicate")
	}
	l.Logger.Warningf(msg, others...)
}
func (l *recLogger) With(kv ...interface{}) log.Logger { return l }

// acceptedResponses counts the responses onResponse took for a registered request: those it processed minus those it
// reported as unknown or duplicate. A response that was accepted is returned by the attempt it belongs to (the timeout path
// drains the channel under the same lock), so a single request never has more than one, and has one exactly when it succeeds.
func acceptedResponses(log []string, result string) string {
	processed, refused := 0, 0
	for _, e := range log {
		switch {
		case strings.HasPrefix(e, "res-delivered:"):
			processed++
		case e == "res-unknown" || e == "res-duplicate":
			refused++
		}
	}
	accepted := processed - refused
	if accepted > 1 || (accepted == 1 && result != "ok") {
		return fmt.Sprintf("lost-reply: onResponse accepted %d response(s) for registered attempts of one request, but the request ended with %q - an accepted response was not returned by its attempt (log %v)", accepted, result, log)
	}
	return ""
}

// lostReply inspects the event log of a single-requester run: an attempt whose response was handed to
// onResponse before any timer fired after the attempt's request was delivered must return that response.
func lostReply(log []string, result string) string {
	// attempt windows start at "req-sent:k" (the attempt's timer is created after the send)
	type win struct {
		k      int
		events []string
	}
	windows := []win{}
	for _, e := range log {
		var k int
		if _, err := fmt.Sscanf(e, "req-sent:%d", &k); err == nil {
			windows = append(windows, win{k: k})
			continue
		}
		if len(windows) > 0 {
			windows[len(windows)-1].events = append(windows[len(windows)-1].events, e)
		}
	}
	for wi, w := range windows {
		own := fmt.Sprintf("res-delivered:%d", w.k)
		resBeforeTimer := false
		for _, e := range w.events {
			if e == "timer" || strings.HasPrefix(e, "request-") {
				break
			}
			if e == own {
				resBeforeTimer = true
				break
			}
		}
		last := wi == len(windows)-1
		if resBeforeTimer && (!last || result != "ok") {
			return fmt.Sprintf("lost-reply: the response to attempt %d reached the requester's node before any timeout fired, yet the attempt did not return it (final result %q; log %v)", w.k, result, log)
		}
	}
	return ""
}

// P2PScenarios lists every scenario with 0..maxTimeouts timer firings.
func P2PScenarios(maxTimeouts int) []P2PScenario {
	base := []P2PScenario{
		{Name: "one-request", Requesters: 1},
		{Name: "two-concurrent-requests", Requesters: 2},
		{Name: "duplicate-responses", Requesters: 1, DupRes: true},
		{Name: "cancelled-request", Requesters: 1, Cancel: true},
		{Name: "two-requests-duplicate-responses", Requesters: 2, DupRes: true},
		{Name: "same-question-to-two-peers", Requesters: 2, TwoPeers: true},
		{Name: "two-requests-cancelled-while-waiting", Requesters: 2, Cancel: true, CancelLate: true},
		{Name: "request-with-failing-send", Requesters: 1, Ghost: true},
		{Name: "request-beside-hung-send", Requesters: 1, Hung: true},
	}
	out := []P2PScenario{}
	for t := 0; t <= maxTimeouts; t++ {
		for _, b := range base {
			b.Timeouts = t
			b.Name = fmt.Sprintf("%s/timeouts<=%d", b.Name, t)
			out = append(out, b)
		}
	}
	return out
}
