// Package conc holds the concurrent scenario bodies shared by the interleaving explorer (instrumented
// build) and the free-running race-detector pass (plain build with -race).
package conc

import (
	"bytes"
	"fmt"
	"sort"

	"github.com/LiskHQ/lisk-engine/pkg/blockchain"
	"github.com/LiskHQ/lisk-engine/pkg/codec"
	"github.com/LiskHQ/lisk-engine/pkg/consensus/certificate"
	"github.com/LiskHQ/lisk-engine/pkg/crypto"
	"github.com/LiskHQ/lisk-engine/pkg/db"
	"github.com/LiskHQ/lisk-engine/pkg/db/diffdb"
	"github.com/LiskHQ/lisk-engine/pkg/event"
	"github.com/LiskHQ/lisk-engine/pkg/verifrt/vsched"
)

type Scenario struct {
	Name string
	Body func()
}

func mkBlock(prev *blockchain.Block, ntx int) *blockchain.Block {
	h := &blockchain.BlockHeader{Version: 2, Height: prev.Header.Height + 1, PreviousBlockID: prev.Header.ID, Timestamp: prev.Header.Timestamp + 10,
		GeneratorAddress: bytes.Repeat([]byte{1}, 20), AggregateCommit: &blockchain.AggregateCommit{}, Signature: make([]byte, 64)}
	txs := []*blockchain.Transaction{}
	for i := 0; i < ntx; i++ {
		tx := &blockchain.Transaction{Module: "m", Command: "c", Nonce: uint64(h.Height)*10 + uint64(i), SenderPublicKey: make([]byte, 32), Signatures: []codec.Hex{make([]byte, 64)}}
		tx.Init()
		txs = append(txs, tx)
	}
	h.Init()
	return &blockchain.Block{Header: h, Transactions: txs, Assets: []*blockchain.BlockAsset{}}
}

type chainFx struct {
	chain  *blockchain.Chain
	d      *db.DB
	blocks []*blockchain.Block
}

func newChain(n, cache, ntx int) *chainFx {
	d, err := db.NewInMemoryDB()
	if err != nil {
		panic(err)
	}
	g := blockchain.NewGenesisBlock(0, 1000, bytes.Repeat([]byte{0}, 32), blockchain.BlockAssets{})
	g.Header.Init()
	c := blockchain.NewChain(&blockchain.ChainConfig{ChainID: []byte{1, 2, 3, 4}, MaxBlockCache: cache, KeepEventsForHeights: -1, MaxTransactionsLength: 15000})
	c.Init(g, d)
	fx := &chainFx{chain: c, d: d, blocks: []*blockchain.Block{g}}
	if err := c.AddBlock(d.NewBatch(), g, nil, 0, false); err != nil {
		panic(err)
	}
	for i := 0; i < n; i++ {
		b := mkBlock(fx.blocks[len(fx.blocks)-1], ntx)
		if err := c.AddBlock(d.NewBatch(), b, nil, 0, false); err != nil {
			panic(err)
		}
		fx.blocks = append(fx.blocks, b)
	}
	return fx
}

func idOf(b *blockchain.Block) string {
	if b == nil {
		return "nil"
	}
	return fmt.Sprintf("h%d", b.Header.Height)
}

// ReadersWriter: readers of the tip / by height / by id while the writer adds and removes a block.
func ReadersWriter() {
	fx := newChain(2, 3, 0)
	defer fx.d.Close()
	next := mkBlock(fx.blocks[2], 0)
	valid := map[string]bool{"h2": true, "h3": true}
	var g vsched.Group
	g.Go("writer", func() {
		if err := fx.chain.AddBlock(fx.d.NewBatch(), next, nil, 0, false); err != nil {
			vsched.Fail("AddBlock: " + err.Error())
		}
		if err := fx.chain.RemoveBlock(fx.d.NewBatch(), false); err != nil {
			vsched.Fail("RemoveBlock: " + err.Error())
		}
	})
	g.Go("reader-tip", func() {
		for i := 0; i < 2; i++ {
			b := fx.chain.LastBlock()
			if !valid[idOf(b)] {
				vsched.Fail("LastBlock returned " + idOf(b) + " which never was a committed tip")
			}
			vsched.Note("tip=" + idOf(b))
		}
	})
	g.Go("reader-height", func() {
		h, err := fx.chain.DataAccess().GetBlockHeaderByHeight(2)
		if err != nil || h.Height != 2 {
			vsched.Fail(fmt.Sprint("GetBlockHeaderByHeight(2): ", err))
		}
		b, err := fx.chain.DataAccess().GetLastBlock()
		if err != nil || !valid[idOf(b)] {
			vsched.Fail(fmt.Sprint("GetLastBlock: ", err, idOf(b)))
		}
		vsched.Note("last=" + idOf(b))
		if _, err := fx.chain.DataAccess().GetBlockHeader(fx.blocks[1].Header.ID); err != nil {
			vsched.Fail("GetBlockHeader(id of height 1): " + err.Error())
		}
	})
	g.Wait()
	if idOf(fx.chain.LastBlock()) != "h2" {
		vsched.Fail("final tip is " + idOf(fx.chain.LastBlock()))
	}
}

func heightsOf(hs []*blockchain.BlockHeader) string {
	x := []int{}
	for _, h := range hs {
		if h == nil {
			x = append(x, -1)
		} else {
			x = append(x, int(h.Height))
		}
	}
	sort.Ints(x)
	return fmt.Sprint(x)
}

// Bulk lookups: headers by ids / heights, transactions by ids, blocks by range return every existing item exactly once.
func BulkHeadersByIDs() {
	fx := newChain(4, 2, 0) // cache 2: heights 1,2 come from the database, 3,4 from the cache
	defer fx.d.Close()
	ids := [][]byte{fx.blocks[1].Header.ID, fx.blocks[3].Header.ID, fx.blocks[4].Header.ID, bytes.Repeat([]byte{9}, 32)}
	hs, err := fx.chain.DataAccess().GetBlockHeaders(ids)
	if err != nil {
		vsched.Fail("GetBlockHeaders: " + err.Error())
	}
	if got := heightsOf(hs); got != "[1 3 4]" {
		vsched.Fail("GetBlockHeaders by 3 existing ids (+1 unknown) returned heights " + got + ", want [1 3 4]")
	}
	vsched.Note("ok")
}

func BulkHeadersByHeights() {
	fx := newChain(4, 2, 0)
	defer fx.d.Close()
	hs, err := fx.chain.DataAccess().GetBlockHeadersByHeights([]uint32{1, 2, 4, 77})
	if err != nil {
		vsched.Fail("GetBlockHeadersByHeights: " + err.Error())
	}
	if got := heightsOf(hs); got != "[1 2 4]" {
		vsched.Fail("GetBlockHeadersByHeights(1,2,4,77) returned heights " + got + ", want [1 2 4]")
	}
	vsched.Note("ok")
}

func BulkTransactions() {
	fx := newChain(4, 2, 2)
	defer fx.d.Close()
	txids := [][]byte{fx.blocks[1].Transactions[0].ID, fx.blocks[2].Transactions[1].ID, fx.blocks[4].Transactions[0].ID, bytes.Repeat([]byte{7}, 32)}
	txs, err := fx.chain.DataAccess().GetTransactions(txids)
	if err != nil {
		vsched.Fail("GetTransactions: " + err.Error())
	}
	got := []string{}
	for _, t := range txs {
		if t == nil {
			got = append(got, "nil")
		} else {
			got = append(got, fmt.Sprint(t.Nonce))
		}
	}
	sort.Strings(got)
	if fmt.Sprint(got) != "[10 21 40]" {
		vsched.Fail("GetTransactions by 3 existing ids (+1 unknown) returned nonces " + fmt.Sprint(got) + ", want [10 21 40]")
	}
	vsched.Note("ok")
}

func BulkBlocksRange() {
	fx := newChain(3, 1, 1)
	defer fx.d.Close()
	bs, err := fx.chain.DataAccess().GetBlocksBetweenHeight(1, 3)
	if err != nil || len(bs) != 3 {
		vsched.Fail(fmt.Sprint("GetBlocksBetweenHeight(1,3): ", err, len(bs)))
	}
	for i, b := range bs {
		if b == nil || int(b.Header.Height) != i+1 || len(b.Transactions) != 1 {
			vsched.Fail("GetBlocksBetweenHeight(1,3) item " + fmt.Sprint(i) + " wrong")
		}
	}
	vsched.Note("ok")
}

func commit(h uint32, v byte) *certificate.SingleCommit {
	hd := &blockchain.BlockHeader{Height: h, ID: crypto.Hash([]byte{byte(h)})}
	bls := crypto.BLSKeyGen(bytes.Repeat([]byte{v}, 32))
	return certificate.NewSingleCommit(hd, bytes.Repeat([]byte{v}, 20), []byte{1, 2, 3, 4}, bls.PrivateKey)
}

var poolCommits []*certificate.SingleCommit

func init() {
	for i := 0; i < 4; i++ {
		poolCommits = append(poolCommits, commit(uint32(5+i), byte(i+1)))
	}
}

// CertPool: concurrent Add / Select+Upgrade / Cleanup never lose or duplicate a commit.
func CertPool() {
	p := certificate.NewPool()
	p.Add(poolCommits[0])
	var g vsched.Group
	g.Go("adder", func() {
		p.Add(poolCommits[1])
		p.Add(poolCommits[2])
	})
	g.Go("gossip", func() {
		sel := p.Select(200, 2)
		p.Upgrade(sel)
		vsched.Note(fmt.Sprintf("selected=%d", len(sel)))
	})
	g.Go("cleanup", func() {
		p.Cleanup(func(h uint32) bool { return h != 99 })
		_ = p.Has(poolCommits[1])
		_ = p.Get(5)
	})
	g.Wait()
	if p.Size() != 3 {
		vsched.Fail(fmt.Sprintf("pool holds %d commits after adding 3 distinct ones", p.Size()))
	}
	for i := 0; i < 3; i++ {
		if !p.Has(poolCommits[i]) {
			vsched.Fail(fmt.Sprintf("commit %d lost", i))
		}
		if n := len(p.Get(uint32(5 + i))); n != 1 {
			vsched.Fail(fmt.Sprintf("commit at height %d present %d times", 5+i, n))
		}
	}
}

// Events: publish / subscribe / close with draining subscribers: each message at most once per subscriber, no send on a closed channel, no deadlock.
func Events() {
	ee := event.New()
	sub1 := ee.Subscribe("t")
	var g vsched.Group
	g.Go("subscriber-1", func() {
		n := 0
		for {
			_, ok := vsched.ChanRecv2(sub1)
			if !ok {
				break
			}
			n++
		}
		vsched.Note(fmt.Sprintf("s1=%d", n))
	})
	g.Go("publisher", func() {
		ee.Publish("t", 1)
		ee.Publish("t", 2)
	})
	ready := make(chan struct{})
	g.Go("late-subscriber", func() {
		ch := ee.Subscribe("t")
		vsched.ChanClose(ready)
		n := 0
		for {
			_, ok := vsched.ChanRecv2(ch)
			if !ok {
				break
			}
			n++
		}
		vsched.Note(fmt.Sprintf("s2=%d", n))
	})
	g.Go("closer", func() {
		vsched.ChanRecv2(ready) // close only once the late subscriber exists (otherwise it would wait forever by construction)
		_ = ee.Close()
	})
	g.Wait()
}

// StagedViews: two prefix views of one staged store used concurrently; the outcome equals some sequential order.
func StagedViews() {
	d, err := db.NewInMemoryDB()
	if err != nil {
		panic(err)
	}
	defer d.Close()
	d.Set([]byte("ak"), []byte("0"))
	root := diffdb.New(d, []byte{})
	va := root.WithPrefix([]byte("a"))
	vb := root.WithPrefix([]byte("b"))
	var g vsched.Group
	g.Go("view-a", func() {
		va.Set([]byte("k"), []byte("1"))
		v, _ := va.Get([]byte("k"))
		if string(v) != "1" {
			vsched.Fail("view a reads " + string(v) + " after writing 1")
		}
		_ = va.Range([]byte("a"), []byte("z"), -1, false)
	})
	g.Go("view-b", func() {
		vb.Set([]byte("k"), []byte("2"))
		vb.Del([]byte("k"))
		vb.Set([]byte("j"), []byte("3"))
		_ = vb.Iterate([]byte{}, -1, false)
	})
	g.Go("root-reader", func() {
		v, ok := root.Get([]byte("ak"))
		if !ok || (string(v) != "0" && string(v) != "1") {
			vsched.Fail("root reads ak=" + string(v))
		}
		id := root.Snapshot()
		root.DeleteSnapshot(id)
	})
	g.Wait()
	batch := d.NewBatch()
	root.Commit(batch)
	d.Write(batch)
	got := map[string]string{}
	for _, kv := range d.IterateRange([]byte{0}, []byte{255}, -1, false) {
		got[string(kv.Key())] = string(kv.Value())
	}
	if len(got) != 2 || got["ak"] != "1" || got["bj"] != "3" {
		vsched.Fail(fmt.Sprintf("committed state %v, want map[ak:1 bj:3]", got))
	}
}

// ReadersWriterDrain: the writer removes as many tips in a row as the block cache holds (the cache is drained and refilled
// from the database) while a reader asks for the tip: it must always get some complete committed tip, never nil.
func ReadersWriterDrain() {
	fx := newChain(4, 2, 0) // heights 0..4 on disk, the two newest cached
	defer fx.d.Close()
	valid := map[string]bool{"h4": true, "h3": true, "h2": true}
	var g vsched.Group
	g.Go("writer", func() {
		for i := 0; i < 2; i++ {
			if err := fx.chain.RemoveBlock(fx.d.NewBatch(), false); err != nil {
				vsched.Fail("RemoveBlock: " + err.Error())
			}
		}
	})
	g.Go("reader-tip", func() {
		for i := 0; i < 2; i++ {
			b := fx.chain.LastBlock()
			if b == nil {
				vsched.Fail("LastBlock returned nil while the writer removed blocks")
				return
			}
			if !valid[idOf(b)] {
				vsched.Fail("LastBlock returned " + idOf(b) + " which never was a committed tip")
			}
			vsched.Note("tip=" + idOf(b))
		}
	})
	g.Wait()
	if b := fx.chain.LastBlock(); b == nil || idOf(b) != "h2" {
		vsched.Fail("final tip is not the block at height 2")
	}
}

var All = []Scenario{
	{"readers-writer", ReadersWriter},
	{"readers-writer-draining-the-cache", ReadersWriterDrain},
	{"bulk-headers-by-ids", BulkHeadersByIDs},
	{"bulk-headers-by-heights", BulkHeadersByHeights},
	{"bulk-transactions", BulkTransactions},
	{"bulk-blocks-range", BulkBlocksRange},
	{"cert-pool", CertPool},
	{"events", Events},
	{"staged-views", StagedViews},
}
