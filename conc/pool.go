package conc

import (
	"github.com/LiskHQ/lisk-engine/pkg/blockchain"
	"github.com/LiskHQ/lisk-engine/pkg/txpool"

	"verif/poolfx"
)

// thin aliases: the pool fixture lives in poolfx (no scheduler dependency) so that non-instrumented checks can use it too

type PoolCfg = poolfx.PoolCfg

func NewPool(c PoolCfg) *txpool.TransactionPool { return poolfx.NewPool(c) }
func PoolTx(sender int, nonce uint64, fee uint64, script byte) *blockchain.Transaction {
	return poolfx.PoolTx(sender, nonce, fee, script)
}
func PoolInvariants(p *txpool.TransactionPool, c PoolCfg, known map[string]*blockchain.Transaction) []string {
	return poolfx.PoolInvariants(p, c, known)
}

var poolLogger = poolfx.Logger
