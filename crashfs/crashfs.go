// Package crashfs wraps pebble's strict in-memory file system with a mutation counter and a crash
// switch: at the k-th file-system mutation the session dies (every later mutation of that session is
// dropped), then the harness decides what happened to data that was written but not yet synced and
// reopens the database on what is left.
package crashfs

import (
	"fmt"
	"io"
	"os"
	"sync"

	"github.com/cockroachdb/pebble/vfs"
)

type World struct {
	Inner *vfs.MemFS
}

func NewWorld() *World { return &World{Inner: vfs.NewStrictMem()} }

// Session is the file system handed to one database instance (one process life).
type Session struct {
	w       *World
	mu      sync.Mutex
	count   int
	crashAt int // die just before this mutation (1-based); 0 = never
	torn    bool
	dead    bool
	Log     []string
	// coarse mode (histories with writes of several MiB, whose split into Write calls is decided by pebble's
	// log-flushing goroutine and is not the same in every run): a Write is not a crash point of its own; crash
	// points are the other mutations (create, sync, rename, ...), and "the data written since the previous
	// crash point reached the disk only up to byte b" is expressed with a byte budget for the last interval.
	coarse   bool
	tail     int   // >= 0: after mutation crashAt-1 only this many written bytes are applied, then the session dies
	sinceEv  int   // bytes written since the last counted mutation
	Unsynced []int // Unsynced[k-1] = bytes written between counted mutation k-1 and k (reference runs)
}

func (w *World) NewSession(crashAt int, tornLastWrite bool) *Session {
	return &Session{w: w, crashAt: crashAt, torn: tornLastWrite}
}

// NewCoarseSession: see the coarse fields of Session. tail < 0 applies every write made before mutation crashAt.
func (w *World) NewCoarseSession(crashAt int, tail int) *Session {
	return &Session{w: w, crashAt: crashAt, coarse: true, tail: tail}
}

func (s *Session) Count() int { s.mu.Lock(); defer s.mu.Unlock(); return s.count }
func (s *Session) Dead() bool { s.mu.Lock(); defer s.mu.Unlock(); return s.dead }

// Kill ends the session explicitly (process exit without a crash point).
func (s *Session) Kill() { s.mu.Lock(); s.dead = true; s.mu.Unlock() }

// tick registers one mutation; it returns (alive, tornNow): alive=false means the mutation must be dropped.
func (s *Session) tick(op string) (bool, bool) {
	s.mu.Lock()
	defer s.mu.Unlock()
	if s.dead {
		return false, false
	}
	s.count++
	if s.coarse {
		s.Unsynced = append(s.Unsynced, s.sinceEv)
		s.sinceEv = 0
	}
	if len(s.Log) < 4000 {
		s.Log = append(s.Log, op)
	}
	if s.crashAt != 0 && s.count == s.crashAt {
		s.dead = true
		return false, s.torn
	}
	return true, false
}

// LoseUnsynced drops everything that was not synced (files and directory entries) — policy "lost".
func (w *World) LoseUnsynced() {
	w.Inner.SetIgnoreSyncs(true)
	w.Inner.ResetToSyncedState()
	w.Inner.SetIgnoreSyncs(false)
}

func (s *Session) Create(name string) (vfs.File, error) {
	if ok, _ := s.tick("create " + name); !ok {
		return &deadFile{}, nil
	}
	f, err := s.w.Inner.Create(name)
	if err != nil {
		return nil, err
	}
	return &file{File: f, s: s, name: name}, nil
}
func (s *Session) Link(oldname, newname string) error {
	if ok, _ := s.tick("link " + newname); !ok {
		return nil
	}
	return s.w.Inner.Link(oldname, newname)
}
func (s *Session) Open(name string, opts ...vfs.OpenOption) (vfs.File, error) {
	f, err := s.w.Inner.Open(name, opts...)
	if err != nil {
		return nil, err
	}
	return &file{File: f, s: s, name: name}, nil
}
func (s *Session) OpenDir(name string) (vfs.File, error) {
	f, err := s.w.Inner.OpenDir(name)
	if err != nil {
		return nil, err
	}
	return &file{File: f, s: s, name: "dir:" + name}, nil
}
func (s *Session) Remove(name string) error {
	if ok, _ := s.tick("remove " + name); !ok {
		return nil
	}
	return s.w.Inner.Remove(name)
}
func (s *Session) RemoveAll(name string) error {
	if ok, _ := s.tick("removeall " + name); !ok {
		return nil
	}
	return s.w.Inner.RemoveAll(name)
}
func (s *Session) Rename(oldname, newname string) error {
	if ok, _ := s.tick("rename " + newname); !ok {
		return nil
	}
	return s.w.Inner.Rename(oldname, newname)
}
func (s *Session) ReuseForWrite(oldname, newname string) (vfs.File, error) {
	if ok, _ := s.tick("reuse " + newname); !ok {
		return &deadFile{}, nil
	}
	f, err := s.w.Inner.ReuseForWrite(oldname, newname)
	if err != nil {
		return nil, err
	}
	return &file{File: f, s: s, name: newname}, nil
}
func (s *Session) MkdirAll(dir string, perm os.FileMode) error {
	if ok, _ := s.tick("mkdir " + dir); !ok {
		return nil
	}
	return s.w.Inner.MkdirAll(dir, perm)
}
func (s *Session) Lock(name string) (io.Closer, error)   { return s.w.Inner.Lock(name) }
func (s *Session) List(dir string) ([]string, error)     { return s.w.Inner.List(dir) }
func (s *Session) Stat(name string) (os.FileInfo, error) { return s.w.Inner.Stat(name) }
func (s *Session) PathBase(path string) string           { return s.w.Inner.PathBase(path) }
func (s *Session) PathJoin(elem ...string) string        { return s.w.Inner.PathJoin(elem...) }
func (s *Session) PathDir(path string) string            { return s.w.Inner.PathDir(path) }
func (s *Session) GetDiskUsage(path string) (vfs.DiskUsage, error) {
	return s.w.Inner.GetDiskUsage(path)
}

var _ vfs.FS = (*Session)(nil)

type file struct {
	vfs.File
	s    *Session
	name string
}

// coarseWrite accounts for a write in coarse mode and returns how many bytes of it reach the file.
func (s *Session) coarseWrite(n int) int {
	s.mu.Lock()
	defer s.mu.Unlock()
	if s.dead {
		return 0
	}
	if s.tail >= 0 && s.crashAt != 0 && s.count == s.crashAt-1 {
		left := s.tail - s.sinceEv
		if n >= left {
			s.dead = true
			s.sinceEv += left
			return left
		}
	}
	s.sinceEv += n
	return n
}

func (f *file) Write(p []byte) (int, error) {
	if f.s.coarse {
		if k := f.s.coarseWrite(len(p)); k < len(p) {
			if k > 0 {
				_, _ = f.File.Write(append([]byte{}, p[:k]...))
			}
			return len(p), nil
		}
		return f.File.Write(p)
	}
	ok, torn := f.s.tick(fmt.Sprintf("write %s %d", f.name, len(p)))
	if !ok {
		if torn && len(p) > 1 {
			_, _ = f.File.Write(append([]byte{}, p[:len(p)/2]...))
		}
		return len(p), nil
	}
	return f.File.Write(p)
}

func (f *file) Sync() error {
	if ok, _ := f.s.tick("sync " + f.name); !ok {
		return nil
	}
	return f.File.Sync()
}

// deadFile is what a dead session hands out: it accepts and drops everything.
type deadFile struct{}

func (deadFile) Close() error                            { return nil }
func (deadFile) Read(p []byte) (int, error)              { return 0, io.EOF }
func (deadFile) ReadAt(p []byte, off int64) (int, error) { return 0, io.EOF }
func (deadFile) Write(p []byte) (int, error)             { return len(p), nil }
func (deadFile) Stat() (os.FileInfo, error)              { return nil, os.ErrNotExist }
func (deadFile) Sync() error                             { return nil }
