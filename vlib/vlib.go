// Package vlib is the shared reporting layer of every check: tier/seed parsing, violation
// bookkeeping against /verif/known_findings.json, evidence writing, replay files, deadlines.
package vlib

import (
	"encoding/json"
	"flag"
	"fmt"
	"os"
	"path/filepath"
	"runtime"
	"sort"
	"strconv"
	"sync"
	"time"
)

const Root = "/verif"

type Violation struct {
	Key    string      `json:"key"`
	What   string      `json:"what"`
	Case   interface{} `json:"case,omitempty"`
	Replay string      `json:"-"`
}

type Finding struct {
	Property string `json:"property"`
	Key      string `json:"key"`
	Status   string `json:"status"` // "known" | "fixed"
	Commit   string `json:"commit,omitempty"`
	What     string `json:"what"`
}

type Run struct {
	ID          string
	Level       string
	Tier        string
	Seed        int64
	ReplayPath  string
	Only        string
	start       time.Time
	deadline    time.Time
	mu          sync.Mutex
	Cov         map[string]interface{}
	Assumptions []string
	viols       map[string]*Violation
	order       []string
	nviol       int
	samples     []interface{}
	capped      bool
	capNotes    []string
}

var (
	flagTier   = flag.String("tier", "", "quick|thorough")
	flagReplay = flag.String("replay", "", "replay file")
	flagOnly   = flag.String("only", "", "restrict to a named sub-check")
	flagBudget = flag.Duration("budget", 0, "internal deadline override")
)

// Start parses flags/env and returns the run context. quickBudget/thoroughBudget are the internal deadlines.
func Start(id, level string, quickBudget, thoroughBudget time.Duration) *Run {
	if !flag.Parsed() {
		flag.Parse()
	}
	tier := *flagTier
	if tier == "" {
		tier = os.Getenv("VERIF_TIER")
	}
	if tier != "thorough" {
		tier = "quick"
	}
	seed, _ := strconv.ParseInt(os.Getenv("VERIF_SEED"), 10, 64)
	r := &Run{ID: id, Level: level, Tier: tier, Seed: seed, ReplayPath: *flagReplay, Only: *flagOnly,
		start: time.Now(), Cov: map[string]interface{}{}, viols: map[string]*Violation{}}
	b := quickBudget
	if tier == "thorough" {
		b = thoroughBudget
	}
	if *flagBudget > 0 {
		b = *flagBudget
	}
	r.deadline = r.start.Add(b)
	if os.Getenv("VERIF_WORKER") == "" {
		go r.selfWatchdog(b)
	}
	return r
}

// selfWatchdog covers the main process (worker processes are watched by their parent, see RunItems): a check
// honours its internal deadline between work items, so a process that is still alive long after it is stuck
// inside one call. The goroutine dump decides whose call it is.
func (r *Run) selfWatchdog(budget time.Duration) {
	grace := budget
	if grace < 5*time.Minute {
		grace = 5 * time.Minute
	}
	time.Sleep(time.Until(r.deadline) + 2*grace + time.Minute)
	buf := make([]byte, 8<<20)
	n := runtime.Stack(buf, true)
	if fn, report := hangInDump(string(buf[:n])); fn != "" {
		r.Violation("process-hang:"+fn, "a call into the code under test did not return (main process, "+grace.String()+" x2 after the internal deadline); goroutine at the time:\n"+report, map[string]interface{}{"hang": fn})
		r.Cap("the main process hung inside the code under test")
		r.Finish()
	}
	fmt.Println("HARNESS-ERROR the check is still running long after its internal deadline and no goroutine is computing inside the repository")
	os.Exit(2)
}

func (r *Run) Thorough() bool { return r.Tier == "thorough" }

// Expired reports whether the internal deadline passed; the caller must stop and call Cap.
func (r *Run) Expired() bool { return time.Now().After(r.deadline) }

// Remaining time before the internal deadline.
func (r *Run) Remaining() time.Duration { return time.Until(r.deadline) }

// Cap records that a bound was hit: the run is reported as not exhaustive.
func (r *Run) Cap(note string) {
	r.mu.Lock()
	defer r.mu.Unlock()
	r.capped = true
	if len(r.capNotes) < 20 {
		r.capNotes = append(r.capNotes, note)
	}
}

func (r *Run) Assume(s string) { r.Assumptions = append(r.Assumptions, s) }

// Sample keeps at most n sample cases in the evidence.
func (r *Run) Sample(s interface{}) {
	r.mu.Lock()
	defer r.mu.Unlock()
	if len(r.samples) < 6 {
		r.samples = append(r.samples, s)
	}
}

// Add adds n to an integer coverage counter.
func (r *Run) Add(name string, n int64) {
	r.mu.Lock()
	defer r.mu.Unlock()
	cur, _ := toInt(r.Cov[name])
	r.Cov[name] = cur + n
}

func (r *Run) Set(name string, v interface{}) {
	r.mu.Lock()
	defer r.mu.Unlock()
	r.Cov[name] = v
}

func (r *Run) Get(name string) int64 {
	r.mu.Lock()
	defer r.mu.Unlock()
	cur, _ := toInt(r.Cov[name])
	return cur
}

// Violation records one violation. key identifies the specific failing input / call site / history
// (first occurrence per key is kept, the rest only counted).
func (r *Run) Violation(key, what string, c interface{}) {
	r.mu.Lock()
	defer r.mu.Unlock()
	r.nviol++
	if _, ok := r.viols[key]; ok {
		return
	}
	if len(r.viols) >= 200 {
		return
	}
	r.viols[key] = &Violation{Key: key, What: what, Case: c}
	r.order = append(r.order, key)
}

func (r *Run) NumViolationKeys() int {
	r.mu.Lock()
	defer r.mu.Unlock()
	return len(r.viols)
}

func loadFindings() []Finding {
	b, err := os.ReadFile(filepath.Join(Root, "known_findings.json"))
	if err != nil {
		return nil
	}
	var f struct {
		Findings []Finding `json:"findings"`
	}
	if err := json.Unmarshal(b, &f); err != nil {
		fmt.Fprintln(os.Stderr, "known_findings.json unreadable:", err)
		os.Exit(2)
	}
	return f.Findings
}

// Finish writes evidence, prints KNOWN-FINDING / VIOLATION lines and exits.
func (r *Run) Finish() {
	known := map[string]Finding{}
	for _, f := range loadFindings() {
		if f.Property == r.ID && f.Status == "known" {
			known[f.Key] = f
		}
	}
	sort.Strings(r.order)
	unknown := 0
	knownSeen := 0
	lines := []string{}
	for _, k := range r.order {
		v := r.viols[k]
		if f, ok := known[k]; ok {
			knownSeen++
			lines = append(lines, fmt.Sprintf("KNOWN-FINDING: property=%s %s [key=%s]", r.ID, f.What, k))
			continue
		}
		unknown++
		dir := filepath.Join(Root, "replays")
		_ = os.MkdirAll(dir, 0o755)
		p := filepath.Join(dir, fmt.Sprintf("%s-%s-%d.json", r.ID, r.Tier, unknown))
		body, _ := json.MarshalIndent(map[string]interface{}{
			"property": r.ID, "key": v.Key, "what": v.What, "case": v.Case,
			"replay_cmd": fmt.Sprintf("./vcheck %s --replay %s", r.ID, p),
		}, "", " ")
		_ = os.WriteFile(p, body, 0o644)
		if unknown <= 25 {
			fmt.Printf("DETAIL property=%s key=%s :: %s\n", r.ID, v.Key, v.What)
			lines = append(lines, fmt.Sprintf("VIOLATION property=%s replay=%s", r.ID, p))
		}
	}
	cov := r.Cov
	if _, ok := cov["samples"]; !ok {
		if len(r.samples) == 0 {
			r.samples = append(r.samples, "none recorded")
		}
		cov["samples"] = r.samples
	}
	if _, ok := cov["exhaustive"]; !ok {
		cov["exhaustive"] = !r.capped
	} else if r.capped {
		cov["exhaustive"] = false
	}
	if r.capped {
		cov["caps_hit"] = r.capNotes
	}
	cov["known_findings_seen"] = knownSeen
	cov["violation_events"] = r.nviol
	ev := map[string]interface{}{
		"property_id": r.ID, "tier": r.Tier, "seed": r.Seed, "level": r.Level,
		"coverage": cov, "assumptions": r.Assumptions,
		"wall_s": time.Since(r.start).Seconds(), "violations": unknown,
	}
	if len(r.Assumptions) == 0 {
		ev["assumptions"] = []string{}
	}
	if r.ReplayPath == "" {
		body, _ := json.MarshalIndent(ev, "", " ")
		_ = os.MkdirAll(filepath.Join(Root, "evidence"), 0o755)
		if err := os.WriteFile(filepath.Join(Root, "evidence", r.ID+".json"), body, 0o644); err != nil {
			fmt.Fprintln(os.Stderr, "cannot write evidence:", err)
			os.Exit(2)
		}
	}
	for _, l := range lines {
		fmt.Println(l)
	}
	fmt.Printf("SUMMARY property=%s tier=%s violations=%d known=%d exhaustive=%v wall=%.1fs\n",
		r.ID, r.Tier, unknown, knownSeen, cov["exhaustive"], time.Since(r.start).Seconds())
	if unknown > 0 {
		os.Exit(1)
	}
	os.Exit(0)
}

// ReadReplay loads the "case" member of a replay file into v.
func (r *Run) ReadReplay(v interface{}) error {
	b, err := os.ReadFile(r.ReplayPath)
	if err != nil {
		return err
	}
	var w struct {
		Case json.RawMessage `json:"case"`
	}
	if err := json.Unmarshal(b, &w); err != nil {
		return err
	}
	return json.Unmarshal(w.Case, v)
}

// Parallel runs f(i) for i in [0,n) on `workers` goroutines (independent shards; never used inside
// a controlled-scheduler execution).
func Parallel(n, workers int, f func(i int)) {
	if workers < 1 {
		workers = 1
	}
	var wg sync.WaitGroup
	ch := make(chan int)
	for w := 0; w < workers; w++ {
		wg.Add(1)
		go func() {
			defer wg.Done()
			for i := range ch {
				f(i)
			}
		}()
	}
	for i := 0; i < n; i++ {
		ch <- i
	}
	close(ch)
	wg.Wait()
}

// Catch runs f and converts a panic into an error string ("" = no panic).
func Catch(f func()) (p string) {
	defer func() {
		if e := recover(); e != nil {
			p = fmt.Sprint(e)
		}
	}()
	f()
	return ""
}

// AddMap adds n to entry key of the map-valued coverage counter name.
func (r *Run) AddMap(name, key string, n int64) {
	r.mu.Lock()
	defer r.mu.Unlock()
	m, _ := r.Cov[name].(map[string]interface{})
	if m == nil {
		m = map[string]interface{}{}
		r.Cov[name] = m
	}
	cur, _ := toInt(m[key])
	m[key] = cur + n
}

// CatchStack is Catch that also returns the goroutine stack of the panic (to name the call site).
func CatchStack(f func()) (p string) {
	defer func() {
		if e := recover(); e != nil {
			buf := make([]byte, 6000)
			n := runtime.Stack(buf, false)
			p = fmt.Sprint(e) + "\n" + string(buf[:n])
		}
	}()
	f()
	return ""
}
