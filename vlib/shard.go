package vlib

import (
	"encoding/json"
	"fmt"
	"io"
	"os"
	"os/exec"
	"runtime"
	"runtime/debug"
	"strconv"
	"strings"
	"sync"
	"syscall"
	"time"
)

type workerOut struct {
	Cov      map[string]interface{} `json:"cov"`
	Viols    []*Violation           `json:"viols"`
	NViol    int                    `json:"nviol"`
	Capped   bool                   `json:"capped"`
	CapNotes []string               `json:"capNotes"`
	Samples  []interface{}          `json:"samples"`
}

// RunSharded executes work(i) for every shard i in [0,n) spread over one single-threaded worker
// process per core (Go's allocator/GC scales poorly across goroutines for this workload), and merges
// the workers' counters, samples, caps and violations into r. Counter merge rule: integers are
// summed, keys starting with "max_" take the maximum, maps of integers are summed per key.
// The caller must build the shard list deterministically before calling.
func (r *Run) RunSharded(n int, work func(i int)) {
	items := make([]string, n)
	for i := range items {
		items[i] = strconv.Itoa(i)
	}
	r.RunItems(items, func(it string) {
		i, _ := strconv.Atoi(it)
		work(i)
	})
}

// RunItems is RunSharded for callers that shard more than once per run (e.g. one call per BFS
// level): the parent hands the item list of THIS call to the workers through a file, and a worker
// processes its share at the first RunItems call it reaches, whatever its own arguments are.
// work must therefore depend only on the item string and on immutable globals.
func (r *Run) RunItems(items []string, work func(item string)) {
	n := len(items)
	if w := os.Getenv("VERIF_WORKER"); w != "" {
		parts := strings.Split(w, "/")
		k, _ := strconv.Atoi(parts[0])
		N, _ := strconv.Atoi(parts[1])
		debug.SetGCPercent(400)
		if f := os.Getenv("VERIF_WORKER_ITEMS"); f != "" {
			b, err := os.ReadFile(f)
			if err != nil || json.Unmarshal(b, &items) != nil {
				fmt.Fprintln(os.Stderr, "worker cannot read items")
				os.Exit(3)
			}
			n = len(items)
		}
		for i := 0; i < n; i++ {
			if i%N == k {
				work(items[i])
			}
		}
		out := workerOut{Cov: r.Cov, NViol: r.nviol, Capped: r.capped, CapNotes: r.capNotes, Samples: r.samples}
		for _, key := range r.order {
			out.Viols = append(out.Viols, r.viols[key])
		}
		b, _ := json.Marshal(out)
		if err := os.WriteFile(os.Getenv("VERIF_WORKER_OUT"), b, 0o644); err != nil {
			fmt.Fprintln(os.Stderr, "worker cannot write output:", err)
			os.Exit(3)
		}
		os.Exit(0)
	}
	N := runtime.NumCPU()
	if v, err := strconv.Atoi(os.Getenv("VERIF_WORKERS")); err == nil && v > 0 {
		N = v
	}
	if N > n {
		N = n
	}
	if N < 1 {
		return
	}
	dir, err := os.MkdirTemp(Root+"/.overlay", "w-"+r.ID+"-")
	if err != nil {
		fmt.Fprintln(os.Stderr, "cannot create worker dir:", err)
		os.Exit(2)
	}
	defer os.RemoveAll(dir)
	itemsFile := dir + "/items.json"
	ib, _ := json.Marshal(items)
	if err := os.WriteFile(itemsFile, ib, 0o644); err != nil {
		fmt.Fprintln(os.Stderr, "cannot write items:", err)
		os.Exit(2)
	}
	var wg sync.WaitGroup
	outs := make([]workerOut, N)
	fails := make([]string, N)
	crashes := make([]string, N)
	hangs := make([]string, N)
	for k := 0; k < N; k++ {
		wg.Add(1)
		go func(k int) {
			defer wg.Done()
			outFile := fmt.Sprintf("%s/%d.json", dir, k)
			cmd := exec.Command(os.Args[0], os.Args[1:]...)
			cmd.Env = append(os.Environ(), fmt.Sprintf("VERIF_WORKER=%d/%d", k, N), "VERIF_WORKER_OUT="+outFile, "VERIF_WORKER_ITEMS="+itemsFile, "GOMAXPROCS=2",
				"VERIF_TIER="+r.Tier)
			tail := &tailBuf{max: 256 << 10}
			cmd.Stderr = io.MultiWriter(os.Stderr, tail)
			if err := cmd.Start(); err != nil {
				fails[k] = err.Error()
				return
			}
			done := make(chan error, 1)
			go func() { done <- cmd.Wait() }()
			// workers stop by themselves at the internal deadline (between items); one that is still alive long after
			// it is stuck inside a single call. Ask the Go runtime for its goroutine dump, then kill it.
			grace := r.deadline.Sub(r.start)
			if grace < 5*time.Minute {
				grace = 5 * time.Minute
			}
			var err error
			select {
			case err = <-done:
			case <-time.After(time.Until(r.deadline) + grace):
				_ = cmd.Process.Signal(syscall.SIGQUIT)
				select {
				case <-done:
				case <-time.After(20 * time.Second):
					_ = cmd.Process.Kill()
					<-done
				}
				fails[k] = "still running " + grace.String() + " after the internal deadline"
				hangs[k] = tail.String()
				return
			}
			if err != nil {
				fails[k] = err.Error()
				crashes[k] = tail.String()
				return
			}
			b, err := os.ReadFile(outFile)
			if err != nil {
				fails[k] = err.Error()
				return
			}
			if err := json.Unmarshal(b, &outs[k]); err != nil {
				fails[k] = err.Error()
			}
		}(k)
	}
	wg.Wait()
	for k, f := range fails {
		if f == "" {
			continue
		}
		// A worker that died of a panic or fatal error raised inside the code under test (typically in a goroutine
		// the code started itself, where no recover of the harness can reach) is a finding about that code: the
		// process that runs it would have crashed. Anything else is a harness failure, never silently ignored.
		if fn, report := hangInCodeUnderTest(hangs[k]); fn != "" {
			r.Violation("process-hang:"+fn, "a call into the code under test did not return (worker of shard "+strconv.Itoa(k)+", "+f+"); goroutine at the time:\n"+report, map[string]interface{}{"hang": fn})
			r.Cap("a worker process hung; its share of the enumeration is incomplete")
			continue
		}
		if fn, report := crashInCodeUnderTest(crashes[k]); fn != "" {
			r.Violation("process-crash:"+fn, "the process running the code under test crashed (worker of shard "+strconv.Itoa(k)+"):\n"+report, map[string]interface{}{"crash": fn})
			r.Cap("a worker process crashed; its share of the enumeration is incomplete")
			continue
		}
		fmt.Printf("HARNESS-ERROR worker %d/%d failed: %s\n", k, N, f)
		os.Exit(2)
	}
	for _, o := range outs {
		for key, v := range o.Cov {
			mergeCov(r.Cov, key, v)
		}
		for _, v := range o.Viols {
			r.Violation(v.Key, v.What, v.Case)
			r.nviol--
		}
		r.nviol += o.NViol
		if o.Capped {
			r.capped = true
			for _, c := range o.CapNotes {
				if len(r.capNotes) < 20 {
					r.capNotes = append(r.capNotes, c)
				}
			}
		}
		for _, s := range o.Samples {
			r.Sample(s)
		}
	}
}

// tailBuf keeps the last max bytes written to it.
type tailBuf struct {
	mu  sync.Mutex
	b   []byte
	max int
}

func (t *tailBuf) Write(p []byte) (int, error) {
	t.mu.Lock()
	defer t.mu.Unlock()
	t.b = append(t.b, p...)
	if len(t.b) > t.max {
		t.b = t.b[len(t.b)-t.max:]
	}
	return len(p), nil
}

func (t *tailBuf) String() string {
	t.mu.Lock()
	defer t.mu.Unlock()
	return string(t.b)
}

// hangInCodeUnderTest reads the goroutine dump a stuck worker printed on SIGQUIT and returns the innermost
// repository function of a goroutine that was running or runnable (i.e. computing, not waiting) with a
// repository frame on top of its stack.
func hangInCodeUnderTest(stderr string) (string, string) {
	i := strings.LastIndex(stderr, "SIGQUIT: quit")
	if i < 0 {
		return "", ""
	}
	return hangInDump(stderr[i:])
}

// hangInDump does the same on a goroutine dump (runtime.Stack or SIGQUIT format).
func hangInDump(dump string) (string, string) {
	for _, g := range strings.Split(dump, "\n\n") {
		g = strings.TrimSpace(g)
		if !strings.HasPrefix(g, "goroutine ") {
			continue
		}
		lines := strings.Split(g, "\n")
		if !strings.Contains(lines[0], "[running") && !strings.Contains(lines[0], "[runnable") {
			continue
		}
		for _, ln := range lines[1:] {
			ln = strings.TrimSpace(ln)
			if ln == "" || strings.HasPrefix(ln, "/") || strings.HasPrefix(ln, "runtime.") || strings.HasPrefix(ln, "runtime/") || strings.HasPrefix(ln, "syscall.") || strings.HasPrefix(ln, "os/signal") {
				continue
			}
			if strings.HasPrefix(ln, "github.com/LiskHQ/lisk-engine/pkg/") && !strings.Contains(ln, "/pkg/verifrt/") {
				fn := strings.TrimPrefix(ln, "github.com/LiskHQ/lisk-engine/pkg/")
				if p := strings.Index(fn, "(0x"); p > 0 {
					fn = fn[:p]
				}
				if p := strings.LastIndex(fn, "({"); p > 0 {
					fn = fn[:p]
				}
				if p := strings.Index(fn, "(...)"); p > 0 {
					fn = fn[:p]
				}
				if len(lines) > 30 {
					lines = lines[:30]
				}
				return fn, strings.Join(lines, "\n")
			}
			break // the innermost user frame is not in the repository
		}
	}
	return "", ""
}

// crashInCodeUnderTest looks for a Go runtime crash report (panic / fatal error) in a dead worker's stderr whose
// crashing goroutine has a frame in the repository under test before any frame of the harness. It returns that
// function and the head of the report.
func crashInCodeUnderTest(stderr string) (string, string) {
	i := strings.LastIndex(stderr, "\npanic: ")
	if j := strings.LastIndex(stderr, "\nfatal error: "); j > i {
		i = j
	}
	if i < 0 {
		if strings.HasPrefix(stderr, "panic: ") || strings.HasPrefix(stderr, "fatal error: ") {
			i = 0
		} else {
			return "", ""
		}
	}
	rep := stderr[i:]
	// the first goroutine listed is the crashing one
	g := strings.Index(rep, "\ngoroutine ")
	if g < 0 {
		return "", ""
	}
	stack := rep[g+1:]
	if e := strings.Index(stack, "\n\n"); e > 0 {
		stack = stack[:e]
	}
	fn := ""
	for _, ln := range strings.Split(stack, "\n") {
		ln = strings.TrimSpace(ln)
		if strings.HasPrefix(ln, "verif/") || strings.HasPrefix(ln, "main.") {
			break // the harness is on the stack below: a recover there could have caught it, or the harness itself failed
		}
		if strings.HasPrefix(ln, "github.com/LiskHQ/lisk-engine/pkg/") && !strings.Contains(ln, "/pkg/verifrt/") {
			fn = strings.TrimPrefix(ln, "github.com/LiskHQ/lisk-engine/pkg/")
			if p := strings.Index(fn, "("); p > 0 && !strings.HasPrefix(fn[p:], "(*") {
				fn = fn[:p]
			}
			if p := strings.LastIndex(fn, "({"); p > 0 {
				fn = fn[:p]
			}
			if p := strings.Index(fn, "(0x"); p > 0 {
				fn = fn[:p]
			}
			break
		}
	}
	if fn == "" {
		return "", ""
	}
	lines := strings.Split(rep, "\n")
	if len(lines) > 40 {
		lines = lines[:40]
	}
	return fn, strings.Join(lines, "\n")
}

func toInt(v interface{}) (int64, bool) {
	switch x := v.(type) {
	case int64:
		return x, true
	case int:
		return int64(x), true
	case uint32:
		return int64(x), true
	case float64:
		if x == float64(int64(x)) {
			return int64(x), true
		}
	}
	return 0, false
}

func mergeCov(dst map[string]interface{}, key string, v interface{}) {
	if iv, ok := toInt(v); ok {
		cur, _ := toInt(dst[key])
		if strings.HasPrefix(key, "max_") {
			if iv > cur {
				cur = iv
			}
			dst[key] = cur
		} else {
			dst[key] = cur + iv
		}
		return
	}
	if m, ok := v.(map[string]interface{}); ok {
		cur, _ := dst[key].(map[string]interface{})
		if cur == nil {
			cur = map[string]interface{}{}
		}
		for k2, v2 := range m {
			mergeCov(cur, k2, v2)
		}
		dst[key] = cur
		return
	}
	if _, exists := dst[key]; !exists {
		dst[key] = v
	}
}
