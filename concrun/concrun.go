// Package concrun is the shared driver of the scheduler-based checks: explores every scenario under the
// controlled scheduler, replays failing schedules before reporting them, and runs the same bodies
// free-running under the race detector in a separately built binary.
package concrun

import (
	"encoding/json"
	"fmt"
	"os"
	"os/exec"
	"regexp"
	"sort"
	"strings"
	"time"

	"github.com/LiskHQ/lisk-engine/pkg/verifrt/vsched"

	"verif/vlib"
)

type Scenario struct {
	Name string
	Body func() // for the explorer
	Free func() // for the free-running race pass (nil: same as Body)
}

type Case struct {
	Scenario string   `json:"scenario"`
	Choices  []int    `json:"choices"`
	Steps    []string `json:"steps"`
}

var addrRe = regexp.MustCompile(`0x[0-9a-f]+|@[0-9a-f]+|[0-9a-f]{8}-[0-9a-f-]{27}`)

// Classify turns a failure message into a stable key naming what fails and where.
func Classify(msg string) string {
	if strings.HasPrefix(msg, "deadlock") {
		m := regexp.MustCompile(`T\d+\(([^)]*)\) waits at ([A-Za-z. ]+)`).FindAllStringSubmatch(msg, -1)
		parts := []string{}
		for _, x := range m {
			parts = append(parts, x[1]+"@"+strings.TrimSpace(x[2]))
		}
		sort.Strings(parts)
		return "deadlock: " + strings.Join(parts, " / ")
	}
	if i := strings.IndexByte(msg, '\n'); i > 0 {
		msg = msg[:i]
	}
	if i := strings.IndexByte(msg, ':'); i > 0 && i < 60 {
		msg = msg[:i]
	}
	return addrRe.ReplaceAllString(msg, "")
}

// IsRacePass reports whether this process is the free-running pass and runs it if so (never returns then).
func IsRacePass(r *vlib.Run, scenarios []Scenario) {
	if !strings.HasPrefix(r.Only, "RACEPASS:") {
		return
	}
	n := 0
	fmt.Sscanf(strings.TrimPrefix(r.Only, "RACEPASS:"), "%d", &n)
	for i := 0; i < n; i++ {
		for _, s := range scenarios {
			body := s.Free
			if body == nil {
				body = s.Body
			}
			done := make(chan struct{})
			go func() { defer close(done); body() }()
			select {
			case <-done:
			case <-time.After(60 * time.Second):
				fmt.Println("RACEPASS-HANG in", s.Name)
				os.Exit(3)
			}
		}
	}
	fmt.Println("RACEPASS-DONE")
	os.Exit(0)
}

// Replay re-executes a recorded case.
func Replay(r *vlib.Run, scenarios []Scenario) {
	var c Case
	if err := r.ReadReplay(&c); err != nil {
		fmt.Println("cannot read replay:", err)
		return
	}
	for _, s := range scenarios {
		if s.Name == c.Scenario {
			msg, ev := vsched.Replay(c.Choices, s.Body)
			fmt.Println("replay:", msg, ev)
			if msg != "" {
				r.Violation(s.Name+": "+Classify(msg), msg, c)
			}
		}
	}
}

// Explore runs all scenarios under the scheduler and records violations.
func Explore(r *vlib.Run, scenarios []Scenario, bound int) {
	for _, s := range scenarios {
		if r.Only != "" && r.Only != s.Name {
			continue
		}
		share := r.Remaining() / time.Duration(len(scenarios)+1)
		deadline := time.Now().Add(share)
		// iterative bounding: complete bound 0, then 1, ... and report the largest bound finished
		var rep *vsched.Report
		completed := -1
		for b := 0; b <= bound; b++ {
			rb := vsched.Explore(vsched.Options{Name: s.Name, MaxPreemptions: b, Deadline: deadline}, s.Body)
			if rep == nil || rb.Exhaustive || len(rb.Failures) > 0 {
				rep = rb
			}
			if !rb.Exhaustive {
				rep.Exhaustive = false
				break
			}
			completed = b
			if len(rb.Failures) > 0 {
				break // the counterexample with the fewest preemptions is the one to report
			}
		}
		r.AddMap("preemption_bound_completed_per_scenario", s.Name, int64(completed))
		r.AddMap("executions_per_scenario", s.Name, rep.Executions)
		r.AddMap("distinct_outcomes_per_scenario", s.Name, int64(len(rep.Outcomes)))
		r.Add("executions", rep.Executions)
		r.Add("executions_with_contention", rep.Contended)
		r.Add("transitions", rep.Points)
		if !rep.Exhaustive {
			r.Cap(fmt.Sprintf("%s: bound %d not finished within the time share; completed bound %d", s.Name, completed+1, completed))
		}
		best := map[string]vsched.Failure{}
		for _, f := range rep.Failures {
			if strings.HasPrefix(f.Msg, "NONDETERMINISM") {
				fmt.Printf("HARNESS-ERROR %s: %s\n", s.Name, f.Msg)
				os.Exit(2)
			}
			k := s.Name + ": " + Classify(f.Msg)
			if b, ok := best[k]; !ok || f.Preemptions < b.Preemptions {
				best[k] = f
			}
		}
		keys := []string{}
		for k := range best {
			keys = append(keys, k)
		}
		sort.Strings(keys)
		for _, k := range keys {
			f := best[k]
			for i := 0; i < 3; i++ { // the same schedule must fail the same way every time
				again, _ := vsched.Replay(f.Choices, s.Body)
				if s.Name+": "+Classify(again) != k {
					fmt.Printf("HARNESS-ERROR schedule of %q does not replay deterministically (%q)\n", k, again)
					os.Exit(2)
				}
			}
			r.Violation(k, fmt.Sprintf("%s [%d preemption(s); schedule %v]", f.Msg, f.Preemptions, f.Steps), Case{s.Name, f.Choices, f.Steps})
		}
		outs := []string{}
		for o := range rep.Outcomes {
			if len(outs) < 6 {
				outs = append(outs, o)
			}
		}
		sort.Strings(outs)
		r.Sample(map[string]interface{}{"scenario": s.Name, "executions": rep.Executions, "threads": rep.MaxThreads, "outcomes_seen": outs})
	}
}

// RaceOnlyTopsIn, when set, restricts the race pass to reports in which at least one of the two accessing
// frames belongs to a package with this prefix (checks that run third-party networking code free-running).
var RaceOnlyTopsIn = ""

// RacePass builds the check with -race (runtime mounted, no instrumentation, mutant files if any) and runs it.
func RacePass(r *vlib.Run, lc string, iters int) {
	b, _ := os.ReadFile("/verif/.overlay/" + lc + "/overlay.json")
	var full struct{ Replace map[string]string }
	_ = json.Unmarshal(b, &full)
	rep := map[string]string{}
	for k, v := range full.Replace {
		if strings.Contains(k, "/pkg/verifrt/") {
			rep[k] = v
		}
	}
	if mo := os.Getenv("VERIF_MUT_OVERLAY"); mo != "" {
		var m struct{ Replace map[string]string }
		if mb, err := os.ReadFile(mo); err == nil && json.Unmarshal(mb, &m) == nil {
			for k, v := range m.Replace {
				rep[k] = v
			}
		}
	}
	ob, _ := json.Marshal(map[string]interface{}{"Replace": rep})
	_ = os.WriteFile("/verif/.overlay/"+lc+"-rt.json", ob, 0o644)
	bin := "/verif/bin/" + lc + "-race"
	cmd := exec.Command("go", "build", "-race", "-tags", "verif", "-overlay=/verif/.overlay/"+lc+"-rt.json", "-o", bin, "./checks/"+lc)
	cmd.Dir = "/verif"
	cmd.Env = append(os.Environ(), "GOFLAGS=-mod=mod", "GOPROXY=off", "GOSUMDB=off", "GOTOOLCHAIN=local")
	if out, err := cmd.CombinedOutput(); err != nil {
		fmt.Println("HARNESS-ERROR race build failed:", err, string(out))
		os.Exit(2)
	}
	for _, procs := range []string{"2", "16"} {
		c := exec.Command(bin, "--only", fmt.Sprintf("RACEPASS:%d", iters))
		c.Env = append(os.Environ(), "GOMAXPROCS="+procs, "GORACE=halt_on_error=0")
		out, _ := c.CombinedOutput()
		r.Add("race_pass_runs", 1)
		for _, rp := range strings.Split(string(out), "WARNING: DATA RACE")[1:] {
			// the accessing frame of each of the two stacks: first frame that is not in the Go runtime
			tops := []string{}
			for _, st := range regexp.MustCompile(`(?s)(Read|Write|Previous read|Previous write) at [^\n]*\n(.*?)\n\n`).FindAllStringSubmatch(rp+"\n\n", -1) {
				for _, ln := range strings.Split(st[2], "\n") {
					ln = strings.TrimSpace(ln)
					if ln == "" || strings.HasPrefix(ln, "/") || strings.HasPrefix(ln, "runtime.") || strings.HasPrefix(ln, "sync.") || strings.HasPrefix(ln, "sync/atomic.") {
						continue
					}
					tops = append(tops, ln)
					break
				}
			}
			if RaceOnlyTopsIn != "" {
				mine := false
				for _, tp := range tops {
					if strings.HasPrefix(tp, RaceOnlyTopsIn) || strings.HasPrefix(tp, "verif/") || strings.HasPrefix(tp, "main.") {
						mine = true
					}
				}
				if !mine {
					r.Add("race_reports_in_third_party_code_ignored", 1)
					continue
				}
			}
			harnessOnly := len(tops) > 0
			for _, tp := range tops {
				if !strings.HasPrefix(tp, "verif/") && !strings.HasPrefix(tp, "main.") {
					harnessOnly = false
				}
			}
			if harnessOnly {
				fmt.Println("HARNESS-ERROR data race inside the harness itself (not the repository):", tops)
				os.Exit(2)
			}
			frames := regexp.MustCompile(`github.com/LiskHQ/lisk-engine/pkg/[^\s(]+(\([^)]*\))?[^\s(]*`).FindAllString(rp, -1)
			uniq := []string{}
			seen := map[string]bool{}
			for _, f := range frames {
				f = regexp.MustCompile(`\.func\d+(\.\d+)*`).ReplaceAllString(f, "")
				if !seen[f] && !strings.Contains(f, "verifrt") {
					seen[f] = true
					uniq = append(uniq, strings.TrimPrefix(f, "github.com/LiskHQ/lisk-engine/pkg/"))
				}
			}
			if len(uniq) > 2 {
				uniq = uniq[:2]
			}
			sort.Strings(uniq)
			lines := strings.Split(rp, "\n")
			if len(lines) > 24 {
				lines = lines[:24]
			}
			r.Violation("data-race: "+strings.Join(uniq, " <-> "), "Go race detector report in the free-running pass:\n"+strings.Join(lines, "\n"), nil)
		}
		if !strings.Contains(string(out), "RACEPASS-DONE") {
			t := string(out)
			if len(t) > 600 {
				t = t[len(t)-600:]
			}
			r.Violation("race-pass-did-not-finish", "free-running pass did not finish (deadlock or crash): "+t, nil)
		} else {
			r.Add("race_pass_completed", 1)
		}
	}
}
