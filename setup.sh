#!/bin/bash
# Offline setup: warm the Go build cache by building every harness once against /repo.
export GOFLAGS=-mod=mod GOPROXY=off GOSUMDB=off GOTOOLCHAIN=local
cd /verif
mkdir -p bin evidence replays .overlay
cp -f /repo/go.sum /verif/go.sum
rc=0
for d in checks/c[0-9][0-9]/; do
  id=$(basename "$d")
  ovflag=""
  if [ -x "checks/$id/overlay.sh" ]; then
    "checks/$id/overlay.sh" ".overlay/$id" > ".overlay/$id.log" 2>&1 || { echo "overlay failed for $id"; rc=1; continue; }
    ovflag="-overlay=/verif/.overlay/$id/overlay.json"
  fi
  go build -tags verif $ovflag -o "bin/$id" "./checks/$id" || { echo "build failed for $id"; rc=1; }
done
exit $rc
