package ref

import (
	"bytes"
	"sort"
)

// ---- LIP-0039 sparse Merkle tree root, recursive definition over the key set -------------------

var EmptyHash = Hash([]byte{})

type KV struct {
	K, V []byte
}

func bitAt(k []byte, i int) byte { return (k[i/8] >> (7 - uint(i%8))) & 1 }

func LeafHash(k, v []byte) []byte {
	return Hash(append(append([]byte{0}, k...), v...))
}

func BranchHash(l, r []byte) []byte {
	return Hash(append(append([]byte{1}, l...), r...))
}

func smtRec(kvs []KV, depth int) []byte {
	switch len(kvs) {
	case 0:
		return EmptyHash
	case 1:
		return LeafHash(kvs[0].K, kvs[0].V)
	}
	// kvs sorted: all keys with bit 0 at depth come first
	split := sort.Search(len(kvs), func(i int) bool { return bitAt(kvs[i].K, depth) == 1 })
	return BranchHash(smtRec(kvs[:split], depth+1), smtRec(kvs[split:], depth+1))
}

// SMTRoot is the root committing to exactly the given map (keys of equal length, non-empty values).
func SMTRoot(m map[string][]byte) []byte {
	kvs := make([]KV, 0, len(m))
	for k, v := range m {
		kvs = append(kvs, KV{[]byte(k), v})
	}
	sort.Slice(kvs, func(i, j int) bool { return bytes.Compare(kvs[i].K, kvs[j].K) < 0 })
	return smtRec(kvs, 0)
}
