package ref

// ---- LIP-0031 regular Merkle tree root, recursive definition ------------------------------------

func RMTLeaf(d []byte) []byte { return Hash(append([]byte{0}, d...)) }

func RMTBranch(l, r []byte) []byte { return Hash(append(append([]byte{1}, l...), r...)) }

// RMTRoot is the Merkle root of the list of data items.
func RMTRoot(data [][]byte) []byte {
	n := len(data)
	if n == 0 {
		return EmptyHash
	}
	if n == 1 {
		return RMTLeaf(data[0])
	}
	k := 1
	for k*2 < n {
		k *= 2
	}
	return RMTBranch(RMTRoot(data[:k]), RMTRoot(data[k:]))
}
