package ref

import (
	"bytes"
	"crypto/sha256"
	"sort"
)

// Minimal hand-written Lisk codec writer (LIP-0027: proto2-style keys, varints, length-delimited).

func Varint(x uint64) []byte {
	var b []byte
	for x >= 0x80 {
		b = append(b, byte(x)|0x80)
		x >>= 7
	}
	return append(b, byte(x))
}

func FieldUint(n int, v uint64) []byte {
	return append(Varint(uint64(n)<<3|0), Varint(v)...)
}

func FieldBytes(n int, v []byte) []byte {
	out := append(Varint(uint64(n)<<3|2), Varint(uint64(len(v)))...)
	return append(out, v...)
}

func Hash(b []byte) []byte {
	h := sha256.Sum256(b)
	return h[:]
}

type HashVal struct {
	BLS    []byte
	Weight uint64
}

// ValidatorsHash per LIP-0058: SHA-256 of {activeValidators sorted by BLS key, certificateThreshold}.
func ValidatorsHash(vals []HashVal, cert uint64) []byte {
	vs := append([]HashVal{}, vals...)
	sort.Slice(vs, func(i, j int) bool { return bytes.Compare(vs[i].BLS, vs[j].BLS) < 0 })
	var out []byte
	for _, v := range vs {
		inner := append(FieldBytes(1, v.BLS), FieldUint(2, v.Weight)...)
		out = append(out, FieldBytes(1, inner)...)
	}
	out = append(out, FieldUint(2, cert)...)
	return Hash(out)
}
