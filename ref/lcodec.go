package ref

import (
	"bytes"
	"crypto/sha256"
	"sort"
)

// Minimal hand-written Lisk codec writer (LIP-0027: proto2-style keys, varints, length-delimited).

func Varint(x uint64) []byte {
	var b []byte
	for x >= 0x80 {
		b = append(b, byte(x)|0x80)
		x >>= 7
	}
	return append(b, byte(x))
}

func FieldUint(n int, v uint64) []byte {
	return append(Varint(uint64(n)<<3|0), Varint(v)...)
}

func FieldBytes(n int, v []byte) []byte {
	out := append(Varint(uint64(n)<<3|2), Varint(uint64(len(v)))...)
	return append(out, v...)
}

func Hash(b []byte) []byte {
	h := sha256.Sum256(b)
	return h[:]
}

type HashVal struct {
	BLS    []byte
	Weight uint64
}

// ValidatorsHash per LIP-0058: SHA-256 of {activeValidators sorted by BLS key, certificateThreshold}.
func ValidatorsHash(vals []HashVal, cert uint64) []byte {
	vs := append([]HashVal{}, vals...)
	sort.Slice(vs, func(i, j int) bool { return bytes.Compare(vs[i].BLS, vs[j].BLS) < 0 })
	var out []byte
	for _, v := range vs {
		inner := append(FieldBytes(1, v.BLS), FieldUint(2, v.Weight)...)
		out = append(out, FieldBytes(1, inner)...)
	}
	out = append(out, FieldUint(2, cert)...)
	return Hash(out)
}

// HeaderFields are the signed fields of a version-2 block header (LIP-0055), in schema order.
type HeaderFields struct {
	Version, Timestamp, Height            uint32
	PreviousBlockID, GeneratorAddress     []byte
	TransactionRoot, AssetRoot, EventRoot []byte
	StateRoot                             []byte
	MaxHeightPrevoted, MaxHeightGenerated uint32
	ImpliesMaxPrevotes                    bool
	ValidatorsHash                        []byte
	AggHeight                             uint32
	AggBits, AggSignature                 []byte
}

// HeaderSigningBytes is the canonical encoding of every header field except the signature (fields 1..14), written
// independently of the engine's generated codec: what a block signature has to cover.
func HeaderSigningBytes(h HeaderFields) []byte {
	b2u := func(b bool) uint64 {
		if b {
			return 1
		}
		return 0
	}
	agg := append(append(FieldUint(1, uint64(h.AggHeight)), FieldBytes(2, h.AggBits)...), FieldBytes(3, h.AggSignature)...)
	out := FieldUint(1, uint64(h.Version))
	out = append(out, FieldUint(2, uint64(h.Timestamp))...)
	out = append(out, FieldUint(3, uint64(h.Height))...)
	out = append(out, FieldBytes(4, h.PreviousBlockID)...)
	out = append(out, FieldBytes(5, h.GeneratorAddress)...)
	out = append(out, FieldBytes(6, h.TransactionRoot)...)
	out = append(out, FieldBytes(7, h.AssetRoot)...)
	out = append(out, FieldBytes(8, h.EventRoot)...)
	out = append(out, FieldBytes(9, h.StateRoot)...)
	out = append(out, FieldUint(10, uint64(h.MaxHeightPrevoted))...)
	out = append(out, FieldUint(11, uint64(h.MaxHeightGenerated))...)
	out = append(out, FieldUint(12, b2u(h.ImpliesMaxPrevotes))...)
	out = append(out, FieldBytes(13, h.ValidatorsHash)...)
	out = append(out, FieldBytes(14, agg)...)
	return out
}
