// Package ref holds the reference models ("boring" re-statements of the LIPs) that the checks
// compare the implementation against.
package ref

import (
	"fmt"
	"sort"
)

// ---- LIP-0058: BFT vote counting, as a function of the header sequence ---------------------
//
// Written against the LIP text, deliberately with different data structures than the
// implementation: block infos are kept for ALL heights in a map keyed by height and the
// 3*batchSize window is expressed by height arithmetic, never by slice positions.

type BHeader struct {
	Height    uint32
	Generator string
	MHG       uint32
	MHP       uint32
	AggHeight uint32
	AggEmpty  bool
}

type BInfo struct {
	Height          uint32
	Generator       string
	MHG, MHP        uint32
	PrevoteWeight   uint64
	PrecommitWeight uint64
}

type VInfo struct {
	MinActiveHeight        uint32
	LargestHeightPrecommit uint32
}

type BParams struct {
	Prevote, Precommit, Cert uint64
	Weights                  map[string]uint64
}

func (p *BParams) equalSet(o *BParams) bool {
	if len(p.Weights) != len(o.Weights) {
		return false
	}
	for a, w := range p.Weights {
		if o.Weights[a] != w {
			return false
		}
	}
	return true
}

type BFT struct {
	MaxLen        int // 3 * batch size
	Batch         int
	MaxPrevoted   uint32
	MaxPrecommit  uint32
	MaxCertified  uint32
	Infos         map[uint32]*BInfo // every height ever inserted and still inside the window
	Tip           uint32
	HasTip        bool
	GenesisHeight uint32
	Active        map[string]*VInfo
	Params        map[uint32]*BParams // stored parameter entries by activation height
}

func NewBFT(batch int, genesisHeight uint32) *BFT {
	return &BFT{MaxLen: 3 * batch, Batch: batch, MaxPrevoted: genesisHeight, MaxPrecommit: genesisHeight,
		MaxCertified: genesisHeight, Infos: map[uint32]*BInfo{}, GenesisHeight: genesisHeight,
		Active: map[string]*VInfo{}, Params: map[uint32]*BParams{}}
}

func (b *BFT) Clone() *BFT {
	c := *b
	c.Infos = map[uint32]*BInfo{}
	for h, i := range b.Infos {
		ci := *i
		c.Infos[h] = &ci
	}
	c.Active = map[string]*VInfo{}
	for a, v := range b.Active {
		cv := *v
		c.Active[a] = &cv
	}
	c.Params = map[uint32]*BParams{}
	for h, p := range b.Params {
		c.Params[h] = p // immutable once stored
	}
	return &c
}

// ParamsAt returns the stored parameters with the largest activation height <= h.
func (b *BFT) ParamsAt(h uint32) (*BParams, uint32, bool) {
	var best *BParams
	var bestH uint32
	found := false
	for ph, p := range b.Params {
		if ph <= h && (!found || ph > bestH) {
			best, bestH, found = p, ph, true
		}
	}
	return best, bestH, found
}

func (b *BFT) currentHeight() uint32 {
	if b.HasTip {
		return b.Tip
	}
	return b.MaxPrevoted
}

// windowLow is the smallest height still inside the window.
func (b *BFT) windowLow() uint32 {
	low := b.Tip
	for h := range b.Infos {
		if h < low {
			low = h
		}
	}
	return low
}

// SetParams mirrors setBFTParameters. Returns an error when the LIP requires rejection.
func (b *BFT) SetParams(precommit, cert uint64, weights map[string]uint64) error {
	if len(weights) > b.Batch {
		return fmt.Errorf("too many validators")
	}
	var W uint64
	for _, w := range weights {
		if w == 0 {
			return fmt.Errorf("zero weight")
		}
		W += w
	}
	if precommit < W/3+1 || precommit > W {
		return fmt.Errorf("precommit threshold out of range")
	}
	if cert < W/3+1 || cert > W {
		return fmt.Errorf("certificate threshold out of range")
	}
	np := &BParams{Prevote: 2*W/3 + 1, Precommit: precommit, Cert: cert, Weights: weights}
	cur := b.currentHeight()
	if cp, _, ok := b.ParamsAt(cur); ok {
		if cp.Precommit == precommit && cp.Cert == cert && cp.equalSet(np) {
			return nil
		}
	}
	next := cur + 1
	b.Params[next] = np
	nact := map[string]*VInfo{}
	for a := range weights {
		if old, ok := b.Active[a]; ok {
			nact[a] = old
		} else {
			nact[a] = &VInfo{MinActiveHeight: next, LargestHeightPrecommit: next - 1}
		}
	}
	b.Active = nact
	return nil
}

func (b *BFT) heightNotPrevoted(nb *BInfo) uint32 {
	low := b.windowLow()
	prev := nb.MHG
	// walk the generator's own chain of "previously generated" heights while they are inside the window
	for prev >= low && prev < nb.Height {
		i, ok := b.Infos[prev]
		if !ok {
			break
		}
		if i.Generator != nb.Generator || i.MHG >= prev {
			return prev
		}
		prev = i.MHG
	}
	if prev >= nb.Height {
		// cannot happen for vote-implying headers (MHG < Height); keep defined
		return prev
	}
	return low - 1
}

// Apply mirrors beforeTransactionsExecute for one header.
func (b *BFT) Apply(h BHeader) error {
	// insert + window
	b.Infos[h.Height] = &BInfo{Height: h.Height, Generator: h.Generator, MHG: h.MHG, MHP: h.MHP}
	b.Tip, b.HasTip = h.Height, true
	for ih := range b.Infos {
		if int64(ih) <= int64(h.Height)-int64(b.MaxLen) || ih > h.Height {
			delete(b.Infos, ih)
		}
	}
	nb := b.Infos[h.Height]
	heights := make([]uint32, 0, len(b.Infos))
	for ih := range b.Infos {
		heights = append(heights, ih)
	}
	sort.Slice(heights, func(i, j int) bool { return heights[i] > heights[j] }) // descending

	if nb.MHG < nb.Height {
		if vi, ok := b.Active[nb.Generator]; ok {
			hnp := b.heightNotPrevoted(nb)
			minPrecommit := max3(vi.MinActiveHeight, hnp+1, vi.LargestHeightPrecommit+1)
			first := true
			for _, ih := range heights {
				if ih < minPrecommit {
					break
				}
				p, _, ok := b.ParamsAt(ih)
				if !ok {
					return fmt.Errorf("no params for %d", ih)
				}
				info := b.Infos[ih]
				if info.PrevoteWeight >= p.Prevote {
					w, ok := p.Weights[nb.Generator]
					if !ok {
						return fmt.Errorf("generator not in params at %d", ih)
					}
					info.PrecommitWeight += w
					if first {
						vi.LargestHeightPrecommit = ih
						first = false
					}
				}
			}
			minPrevote := max3(nb.MHG+1, vi.MinActiveHeight, 0)
			for _, ih := range heights {
				if ih < minPrevote {
					break
				}
				p, _, ok := b.ParamsAt(ih)
				if !ok {
					return fmt.Errorf("no params for %d", ih)
				}
				w, ok := p.Weights[nb.Generator]
				if !ok {
					return fmt.Errorf("generator not in params at %d", ih)
				}
				b.Infos[ih].PrevoteWeight += w
			}
		}
	}
	for _, ih := range heights {
		p, _, ok := b.ParamsAt(ih)
		if !ok {
			return fmt.Errorf("no params for %d", ih)
		}
		if b.Infos[ih].PrevoteWeight >= p.Prevote {
			b.MaxPrevoted = ih
			break
		}
	}
	for _, ih := range heights {
		p, _, _ := b.ParamsAt(ih)
		if b.Infos[ih].PrecommitWeight >= p.Precommit {
			b.MaxPrecommit = ih
			break
		}
	}
	if !h.AggEmpty {
		b.MaxCertified = h.AggHeight
	}
	// prune parameters: keep the newest entry <= min(window low, maxCertified+1) and everything above
	need := b.windowLow()
	if b.MaxCertified+1 < need {
		need = b.MaxCertified + 1
	}
	if _, keepH, ok := b.ParamsAt(need); ok {
		for ph := range b.Params {
			if ph < keepH {
				delete(b.Params, ph)
			}
		}
	}
	return nil
}

// ImpliesMaxPrevotes: the header at the tip implies maximal prevotes iff it implies votes at all
// (MHG < height) and the block at height MHG is outside the window or was generated by the same validator.
func (b *BFT) ImpliesMaxPrevotes(h BHeader) bool {
	if h.MHG >= h.Height {
		return false
	}
	i, ok := b.Infos[h.MHG]
	if !ok {
		return true
	}
	return i.Generator == h.Generator
}

// NextParamsHeight returns the smallest stored activation height > h.
func (b *BFT) NextParamsHeight(h uint32) (uint32, bool) {
	var best uint32
	found := false
	for ph := range b.Params {
		if ph > h && (!found || ph < best) {
			best, found = ph, true
		}
	}
	return best, found
}

func max3(a, b, c uint32) uint32 {
	m := a
	if b > m {
		m = b
	}
	if c > m {
		m = c
	}
	return m
}
