package ref

// ---- LIP-0014: header contradiction ----------------------------------------------------------

type CHeader struct {
	Gen    string
	Height uint32
	MHG    uint32
	MHP    uint32
}

// legit reports whether b can legitimately have been produced after a by the same validator.
func legit(a, b CHeader) bool {
	if b.MHG < a.MHG || b.MHG < a.Height || b.MHP < a.MHP {
		return false
	}
	if a.MHP == b.MHP && a.Height >= b.Height {
		return false
	}
	return true
}

// ContradictingOrderFree: two distinct headers of one generator contradict iff neither is a
// legitimate successor of the other; headers of different generators never contradict.
func ContradictingOrderFree(a, b CHeader) bool {
	if a.Gen != b.Gen {
		return false
	}
	return !legit(a, b) && !legit(b, a)
}

// ContradictingLIP is the ordered definition of LIP-0014 (order by maxHeightGenerated, then
// maxHeightPrevoted, then height; then the three conditions on the earlier/later pair).
func ContradictingLIP(x, y CHeader) bool {
	a, b := x, y
	if a.MHG > b.MHG || (a.MHG == b.MHG && a.MHP > b.MHP) || (a.MHG == b.MHG && a.MHP == b.MHP && a.Height > b.Height) {
		a, b = b, a
	}
	if a.Gen != b.Gen {
		return false
	}
	if a.MHP == b.MHP && a.Height >= b.Height {
		return true
	}
	if a.Height > b.MHG {
		return true
	}
	if a.MHP > b.MHP {
		return true
	}
	return false
}
