// Package verrgroup mirrors golang.org/x/sync/errgroup on top of vsched (every Go is a controlled thread).
package verrgroup

import (
	"context"

	"github.com/LiskHQ/lisk-engine/pkg/verifrt/vsched"
	"github.com/LiskHQ/lisk-engine/pkg/verifrt/vsync"
)

type Group struct {
	wg  vsync.WaitGroup
	err error
	set bool
}

func WithContext(ctx context.Context) (*Group, context.Context) { return &Group{}, ctx }

func (g *Group) Go(f func() error) {
	g.wg.Add(1)
	vsched.Go("errgroup", func() {
		defer g.wg.Done()
		if err := f(); err != nil && !g.set {
			g.set = true
			g.err = err
		}
	})
}

func (g *Group) Wait() error {
	g.wg.Wait()
	return g.err
}
