// Package vsync mirrors the parts of package sync used by the instrumented files, on top of vsched.
// Schedule points are placed before acquiring operations (Lock, RLock, Wait): release operations are
// left movers, so preempting before acquires is sufficient to reach every deadlock and every
// interleaving of critical sections.
package vsync

import (
	"sync"

	"github.com/LiskHQ/lisk-engine/pkg/verifrt/vsched"
)

// Pool and Map carry no blocking operation: the real types are used as they are (under the scheduler only one thread
// runs at a time, so a pool behaves as a deterministic free list within one execution).
type (
	Pool = sync.Pool
	Map  = sync.Map
)

type Locker interface {
	Lock()
	Unlock()
}

type Mutex struct {
	locked bool
	owner  int
}

func (m *Mutex) Lock() {
	if !vsched.Active() {
		m.locked = true
		return
	}
	vsched.Block("Mutex.Lock", func() bool { return !m.locked })
	m.locked = true
	m.owner = vsched.ThreadID()
}

func (m *Mutex) TryLock() bool {
	if vsched.Active() {
		vsched.Point("Mutex.TryLock")
	}
	if m.locked {
		return false
	}
	m.locked = true
	return true
}

func (m *Mutex) Unlock() {
	if !m.locked && vsched.Active() {
		vsched.Fail("sync: unlock of unlocked mutex")
	}
	m.locked = false
}

// RWMutex follows Go's semantics: a blocked Lock call excludes new readers.
type RWMutex struct {
	readers        int
	writer         bool
	writersWaiting int
}

func (m *RWMutex) RLock() {
	if !vsched.Active() {
		m.readers++
		return
	}
	vsched.Block("RWMutex.RLock", func() bool { return !m.writer && m.writersWaiting == 0 })
	m.readers++
}

func (m *RWMutex) RUnlock() {
	if m.readers <= 0 && vsched.Active() {
		vsched.Fail("sync: RUnlock of unlocked RWMutex")
	}
	m.readers--
}

func (m *RWMutex) Lock() {
	if !vsched.Active() {
		m.writer = true
		return
	}
	m.writersWaiting++
	vsched.Block("RWMutex.Lock", func() bool { return !m.writer && m.readers == 0 })
	m.writersWaiting--
	m.writer = true
}

func (m *RWMutex) Unlock() {
	if !m.writer && vsched.Active() {
		vsched.Fail("sync: Unlock of unlocked RWMutex")
	}
	m.writer = false
}

type rlocker RWMutex

func (r *rlocker) Lock()   { (*RWMutex)(r).RLock() }
func (r *rlocker) Unlock() { (*RWMutex)(r).RUnlock() }

func (m *RWMutex) RLocker() Locker { return (*rlocker)(m) }

type WaitGroup struct {
	n int
}

func (w *WaitGroup) Add(d int) {
	w.n += d
	if w.n < 0 {
		panic("sync: negative WaitGroup counter")
	}
}
func (w *WaitGroup) Done() { w.Add(-1) }
func (w *WaitGroup) Wait() {
	if !vsched.Active() {
		return
	}
	vsched.Block("WaitGroup.Wait", func() bool { return w.n == 0 })
}

type Once struct {
	m    Mutex
	done bool
}

func (o *Once) Do(f func()) {
	o.m.Lock()
	defer o.m.Unlock()
	if !o.done {
		o.done = true
		f()
	}
}
