package vsched

import (
	"sync"
	"context"
	"fmt"
	"reflect"
	"time"
)

// Channel operations of instrumented code are routed here. The native channel is only an identity:
// its state (queue, capacity, closed) lives in a side table owned by the scheduler, so that blocking
// and wake-ups are scheduler decisions. Outside an exploration the native operation is used.

type chanState struct {
	queue   []interface{}
	cap     int
	closed  bool
	taken   int64 // number of values received (lets an unbuffered sender wait for its hand-off)
	sent    int64
	name    string
}

var chans = map[uintptr]*chanState{}

func resetChans() { chans = map[uintptr]*chanState{}; timersStarted = 0 }

func stateOf(ch interface{}) *chanState {
	v := reflect.ValueOf(ch)
	p := v.Pointer()
	s, ok := chans[p]
	if !ok {
		s = &chanState{cap: v.Cap(), name: fmt.Sprintf("chan@%x", p&0xffff)}
		chans[p] = s
	}
	return s
}

// ChanSend models ch <- v.
func ChanSend[C ~chan T | ~chan<- T, T any](ch C, v T) {
	if active == nil {
		ch <- v
		return
	}
	if aborting() {
		return
	}
	if reflect.ValueOf(ch).IsNil() {
		Block("send on nil channel", func() bool { return false })
	}
	s := stateOf(ch)
	Block("send "+s.name, func() bool { return s.closed || len(s.queue) < s.cap || (s.cap == 0 && len(s.queue) == 0) })
	if s.closed {
		panic("send on closed channel")
	}
	s.queue = append(s.queue, v)
	s.sent++
	if s.cap == 0 {
		// rendezvous: the sender continues only after a receiver took the value
		my := s.sent
		Block("handoff "+s.name, func() bool { return s.taken >= my || s.closed })
	}
}

func recvReady(s *chanState) bool { return len(s.queue) > 0 || s.closed }

func take[T any](s *chanState) (T, bool) {
	var zero T
	if len(s.queue) > 0 {
		v := s.queue[0]
		s.queue = s.queue[1:]
		s.taken++
		if v == nil {
			return zero, true
		}
		return v.(T), true
	}
	return zero, false
}

// ChanRecv2 models v, ok := <-ch.
func ChanRecv2[C ~chan T | ~<-chan T, T any](ch C) (T, bool) {
	if active == nil {
		v, ok := <-ch
		return v, ok
	}
	var zero T
	if aborting() {
		return zero, false
	}
	if reflect.ValueOf(ch).IsNil() {
		Block("recv on nil channel", func() bool { return false })
	}
	s := stateOf(ch)
	Block("recv "+s.name, func() bool { return recvReady(s) })
	return take[T](s)
}

// ChanRecv models <-ch.
func ChanRecv[C ~chan T | ~<-chan T, T any](ch C) T {
	v, _ := ChanRecv2[C, T](ch)
	return v
}

// ChanClose models close(ch).
func ChanClose[C ~chan T | ~chan<- T, T any](ch C) {
	if active == nil {
		close(ch)
		return
	}
	if aborting() {
		return
	}
	s := stateOf(ch)
	if s.closed {
		panic("close of closed channel")
	}
	s.closed = true
}

// ChanLen models len(ch) for harness assertions.
func ChanLen(ch interface{}) int {
	if active == nil {
		return reflect.ValueOf(ch).Len()
	}
	return len(stateOf(ch).queue)
}

// SelectCase is one receive case of an instrumented select (send cases are not used by the instrumented files).
type SelectCase struct {
	s   *chanState
	nil bool
}

func RecvCase(ch interface{}) SelectCase {
	v := reflect.ValueOf(ch)
	if !v.IsValid() || v.IsNil() {
		return SelectCase{nil: true}
	}
	if active == nil {
		panic("vsched: instrumented select outside an exploration")
	}
	return SelectCase{s: stateOf(ch)}
}

// Select blocks until one of the receive cases is ready and returns its index (-1 = default).
// With several ready cases the choice is a scheduler decision.
func Select(hasDefault bool, cases ...SelectCase) int {
	if aborting() {
		return -1
	}
	ready := func() []int {
		r := []int{}
		for i, c := range cases {
			if !c.nil && recvReady(c.s) {
				r = append(r, i)
			}
		}
		return r
	}
	if hasDefault {
		Point("select(default)")
		if r := ready(); len(r) > 0 {
			return r[Choose("select-ready", len(r))]
		}
		return -1
	}
	Block("select", func() bool { return len(ready()) > 0 })
	r := ready()
	return r[Choose("select-ready", len(r))]
}

// SelectRecv completes the chosen receive case.
func SelectRecv[C ~chan T | ~<-chan T, T any](ch C) (T, bool) {
	return take[T](stateOf(ch))
}

// Choose is a data non-determinism point: returns a value in [0,n) decided by the explorer.
func Choose(label string, n int) int {
	e := active
	if e == nil || n <= 1 {
		return 0
	}
	if e.aborted {
		return 0
	}
	choice := 0
	step := len(e.trace)
	if step < len(e.prefix) {
		choice = e.prefix[step]
		if choice >= n {
			e.abort(fmt.Sprintf("NONDETERMINISM: replayed data choice %d of %d at step %d", choice, n, step), false)
			return 0
		}
	}
	// a data choice costs nothing: recorded as a point whose running thread is not "enabled first"
	e.trace = append(e.trace, pointRec{n: n, curEnabled: false, chosen: choice, label: label, tid: e.cur.id})
	return choice
}

// TimerHook, if set, is called by a virtual timer at the moment it fires.
var TimerHook func()

// TrySend models select { case ch <- v: ...; default: ... }: a non-blocking send.
func TrySend[C ~chan T | ~chan<- T, T any](ch C, v T) bool {
	if active == nil {
		select {
		case ch <- v:
			return true
		default:
			return false
		}
	}
	if aborting() {
		return false
	}
	Point("try-send")
	s := stateOf(ch)
	if s.closed {
		panic("send on closed channel")
	}
	if len(s.queue) < s.cap {
		s.queue = append(s.queue, v)
		s.sent++
		return true
	}
	return false // an unbuffered channel has no parked receiver registry here: treated as not ready (conservative)
}

// TimerBudget bounds how many virtual timers of one execution may fire at all (-1: unlimited). Timers
// beyond the budget never fire: a timeout is a deviation from the default environment and the harness
// iterates the budget 0,1,2 (code that relies on a timeout to recover from a lost message then blocks
// forever, which the scheduler reports as a deadlock).
var TimerBudget = -1
var timersStarted = 0

// After models time.After: a timer whose firing is a schedulable event (a thread of its own).
func After(d time.Duration) <-chan time.Time {
	ch := make(chan time.Time, 1)
	if active == nil {
		return time.After(d)
	}
	stateOf(ch).name = fmt.Sprintf("timer(%s)", d)
	if TimerBudget >= 0 {
		if timersStarted >= TimerBudget {
			return ch
		}
		timersStarted++
	}
	Go("timer", func() {
		Point("timer fires")
		if TimerHook != nil {
			TimerHook()
		}
		ChanSend(ch, time.Time{})
	})
	return ch
}

// ---- context ---------------------------------------------------------------------------------

type vctx struct {
	context.Context
	done chan struct{}
	mu   sync.Mutex
	err  error
}

func (c *vctx) Done() <-chan struct{} { return c.done }
func (c *vctx) Err() error {
	if active != nil && stateOf(c.done).closed {
		return context.Canceled
	}
	c.mu.Lock()
	defer c.mu.Unlock()
	return c.err
}

// WithCancel returns a context whose Done channel is under scheduler control.
func WithCancel(parent context.Context) (context.Context, func()) {
	c := &vctx{Context: parent, done: make(chan struct{})}
	if active != nil {
		stateOf(c.done).name = "ctx.Done"
	}
	var once sync.Once
	return c, func() {
		if active != nil {
			s := stateOf(c.done)
			if !s.closed {
				s.closed = true
			}
			return
		}
		// free-running (race pass): an ordinary cancellable context
		once.Do(func() {
			c.mu.Lock()
			c.err = context.Canceled
			c.mu.Unlock()
			close(c.done)
		})
	}
}
