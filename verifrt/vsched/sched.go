// Package vsched is a cooperative, fully controlled scheduler for exhaustive interleaving
// exploration (stateless DFS with a preemption bound). Exactly one registered thread runs at a
// time; every hand-off happens at a schedule point and is a recorded choice. Instrumented code
// reaches it through the vsync / verrgroup shims and the channel helpers in chan.go.
//
// The package is mounted into the lisk-engine module at build time (go build -overlay) as
// github.com/LiskHQ/lisk-engine/pkg/verifrt/vsched so that both instrumented repository files and
// the harness import the same runtime.
package vsched

import (
	"fmt"
	"runtime"
	"strings"
	"sync"
	"time"
)

type thread struct {
	id      int
	name    string
	wake    chan struct{}
	pred    func() bool // nil = runnable
	done    bool
	waiting string
}

type pointRec struct {
	n          int  // number of enabled threads
	curEnabled bool // was the running thread among them (then it is index 0)
	chosen     int
	label      string
	tid        int
}

type exec struct {
	threads  []*thread
	cur      *thread
	prefix   []int
	trace    []pointRec
	aborted  bool
	failure  string
	deadlock bool
	wg       sync.WaitGroup
	finished chan struct{}
	mu       sync.Mutex // protects nothing across threads (one runs at a time); used only for abort wake-ups
	maxSteps int
	events   []string
	vtimeSeq int
}

var active *exec

// Active reports whether an exploration is running (shims fall back to plain single-threaded behaviour otherwise).
func Active() bool { return active != nil && !active.aborted }

// aborting is true while an execution is being torn down: shims must return immediately.
func aborting() bool { return active != nil && active.aborted }

func (e *exec) enabled() ([]*thread, bool) {
	out := []*thread{}
	curEnabled := false
	if e.cur != nil && !e.cur.done && (e.cur.pred == nil || e.cur.pred()) {
		out = append(out, e.cur)
		curEnabled = true
	}
	for _, t := range e.threads {
		if t == e.cur || t.done {
			continue
		}
		if t.pred == nil || t.pred() {
			out = append(out, t)
		}
	}
	return out, curEnabled
}

func (e *exec) abort(msg string, deadlock bool) {
	if e.aborted {
		return
	}
	e.aborted = true
	if e.failure == "" {
		e.failure = msg
		e.deadlock = deadlock
	}
	for _, t := range e.threads {
		if t != e.cur && !t.done {
			select {
			case t.wake <- struct{}{}:
			default:
			}
		}
	}
}

// schedule is called by the running thread t at a schedule point (pred != nil: t can only continue when pred holds).
func (e *exec) schedule(t *thread, label string, pred func() bool) {
	if e.aborted {
		runtime.Goexit()
	}
	t.pred = pred
	t.waiting = label
	en, curEnabled := e.enabled()
	if len(en) == 0 {
		desc := []string{}
		for _, x := range e.threads {
			if !x.done {
				desc = append(desc, fmt.Sprintf("T%d(%s) waits at %s", x.id, x.name, x.waiting))
			}
		}
		e.abort("deadlock: no thread can run: "+strings.Join(desc, "; "), true)
		runtime.Goexit()
	}
	if len(e.trace) >= e.maxSteps {
		e.abort(fmt.Sprintf("livelock or runaway execution: more than %d schedule points", e.maxSteps), false)
		runtime.Goexit()
	}
	choice := 0
	step := len(e.trace)
	if step < len(e.prefix) {
		choice = e.prefix[step]
		if choice >= len(en) {
			e.abort(fmt.Sprintf("NONDETERMINISM: replayed choice %d at step %d but only %d threads enabled", choice, step, len(en)), false)
			runtime.Goexit()
		}
	}
	e.trace = append(e.trace, pointRec{n: len(en), curEnabled: curEnabled, chosen: choice, label: label, tid: t.id})
	next := en[choice]
	if next == t {
		t.pred = nil
		return
	}
	e.cur = next
	next.wake <- struct{}{}
	<-t.wake
	if e.aborted {
		runtime.Goexit()
	}
	t.pred = nil
}

// finish is called when thread t's function returned.
func (e *exec) finish(t *thread) {
	t.done = true
	if e.aborted {
		return
	}
	en, _ := e.enabled()
	if len(en) == 0 {
		alive := []string{}
		for _, x := range e.threads {
			if !x.done {
				alive = append(alive, fmt.Sprintf("T%d(%s) waits at %s", x.id, x.name, x.waiting))
			}
		}
		if len(alive) > 0 {
			e.abort("deadlock: remaining threads can never run: "+strings.Join(alive, "; "), true)
			return
		}
		close(e.finished)
		return
	}
	choice := 0
	step := len(e.trace)
	if step < len(e.prefix) {
		choice = e.prefix[step]
		if choice >= len(en) {
			e.abort(fmt.Sprintf("NONDETERMINISM: replayed choice %d at step %d (thread exit) but only %d enabled", choice, step, len(en)), false)
			return
		}
	}
	e.trace = append(e.trace, pointRec{n: len(en), curEnabled: false, chosen: choice, label: "exit", tid: t.id})
	next := en[choice]
	e.cur = next
	next.wake <- struct{}{}
}

func (e *exec) spawn(name string, f func()) *thread {
	t := &thread{id: len(e.threads), name: name, wake: make(chan struct{}, 1), waiting: "start"}
	e.threads = append(e.threads, t)
	e.wg.Add(1)
	go func() {
		defer e.wg.Done()
		<-t.wake
		if e.aborted {
			return
		}
		defer func() {
			if r := recover(); r != nil {
				buf := make([]byte, 2048)
				n := runtime.Stack(buf, false)
				e.abort(fmt.Sprintf("panic in T%d(%s): %v\n%s", t.id, t.name, r, buf[:n]), false)
				t.done = true
				return
			}
			e.finish(t)
		}()
		f()
	}()
	return t
}

// ---- API used by shims and harnesses -----------------------------------------------------------

// Point is a plain schedule point.
func Point(label string) {
	if e := active; e != nil && !e.aborted {
		e.schedule(e.cur, label, nil)
	} else if e != nil && e.aborted {
		runtime.Goexit()
	}
}

// Block parks the running thread until pred holds (evaluated by the scheduler whenever it picks a thread).
func Block(label string, pred func() bool) {
	if e := active; e != nil {
		if e.aborted {
			runtime.Goexit()
		}
		e.schedule(e.cur, label, pred)
		return
	}
	if !pred() {
		panic("vsched: blocking operation outside an exploration would block forever: " + label)
	}
}

// Go starts a new controlled thread (outside an exploration: a plain goroutine).
func Go(name string, f func()) {
	e := active
	if e == nil {
		go f()
		return
	}
	if e.aborted {
		runtime.Goexit()
	}
	e.spawn(name, f)
	e.schedule(e.cur, "go "+name, nil)
}

// Fail records a property violation observed inside the running execution and tears it down.
func Fail(msg string) {
	if e := active; e != nil {
		e.abort(msg, false)
		runtime.Goexit()
	}
	panic(msg)
}

// Note appends an observation to the execution's event log (part of the outcome signature).
func Note(s string) {
	if e := active; e != nil {
		e.events = append(e.events, s)
	}
}

// ThreadID returns the id of the running controlled thread (-1 outside).
func ThreadID() int {
	if e := active; e != nil && e.cur != nil {
		return e.cur.id
	}
	return -1
}

// ---- exploration driver ------------------------------------------------------------------------

type Options struct {
	Name           string
	MaxPreemptions int
	MaxExecutions  int64
	Deadline       time.Time
	MaxSteps       int
	// StopOnFailure ends the exploration at the first failing execution.
	StopOnFailure bool
}

type Failure struct {
	Msg         string   `json:"msg"`
	Deadlock    bool     `json:"deadlock"`
	Choices     []int    `json:"choices"`
	Preemptions int      `json:"preemptions"`
	Steps       []string `json:"steps"`
}

type Report struct {
	Name        string
	Executions  int64
	Points      int64
	MaxThreads  int
	Contended   int64 // executions in which some point had more than one enabled thread
	Outcomes    map[string]int64
	Failures    []Failure
	Exhaustive  bool
	BoundUsed   int
	Nondeterm   bool
}

type outcome struct {
	trace   []pointRec
	failure string
	dead    bool
	events  []string
	threads int
}

func runOnce(prefix []int, maxSteps int, body func()) outcome {
	e := &exec{prefix: prefix, finished: make(chan struct{}), maxSteps: maxSteps}
	resetChans()
	active = e
	main := e.spawn("main", body)
	e.cur = main
	main.wake <- struct{}{}
	// wait for completion or abort
	done := make(chan struct{})
	go func() { e.wg.Wait(); close(done) }()
	select {
	case <-e.finished:
		<-done
	case <-done:
	}
	active = nil
	return outcome{trace: e.trace, failure: e.failure, dead: e.deadlock, events: e.events, threads: len(e.threads)}
}

func describe(tr []pointRec) []string {
	out := []string{}
	for _, p := range tr {
		if p.n > 1 || p.label == "exit" {
			out = append(out, fmt.Sprintf("T%d@%s[%d/%d]", p.tid, p.label, p.chosen, p.n))
		}
	}
	if len(out) > 60 {
		out = append(out[:60], "...")
	}
	return out
}

// Explore runs body under every schedule with at most MaxPreemptions preemptions.
// body must build all state it uses from scratch (it is executed once per schedule) and should
// call Note / Fail to publish observations; the final Note log is the execution's outcome.
func Explore(opt Options, body func()) *Report {
	if opt.MaxSteps == 0 {
		opt.MaxSteps = 20000
	}
	rep := &Report{Name: opt.Name, Outcomes: map[string]int64{}, Exhaustive: true, BoundUsed: opt.MaxPreemptions}
	stack := [][]int{{}}
	for len(stack) > 0 {
		if opt.MaxExecutions > 0 && rep.Executions >= opt.MaxExecutions {
			rep.Exhaustive = false
			break
		}
		if !opt.Deadline.IsZero() && time.Now().After(opt.Deadline) {
			rep.Exhaustive = false
			break
		}
		prefix := stack[len(stack)-1]
		stack = stack[:len(stack)-1]
		o := runOnce(prefix, opt.MaxSteps, body)
		rep.Executions++
		rep.Points += int64(len(o.trace))
		if o.threads > rep.MaxThreads {
			rep.MaxThreads = o.threads
		}
		cont := false
		for _, p := range o.trace {
			if p.n > 1 {
				cont = true
				break
			}
		}
		if cont {
			rep.Contended++
		}
		choices := make([]int, len(o.trace))
		pre := 0
		for i, p := range o.trace {
			choices[i] = p.chosen
			if p.chosen != 0 && p.curEnabled {
				pre++
			}
		}
		if o.failure != "" {
			if strings.HasPrefix(o.failure, "NONDETERMINISM") {
				rep.Nondeterm = true
			}
			rep.Failures = append(rep.Failures, Failure{Msg: o.failure, Deadlock: o.dead, Choices: choices, Preemptions: pre, Steps: describe(o.trace)})
			rep.Outcomes["FAIL: "+firstLine(o.failure)]++
			if opt.StopOnFailure {
				rep.Exhaustive = false
				break
			}
		} else {
			rep.Outcomes[strings.Join(o.events, " | ")]++
		}
		// children: deviate at every point after the prefix
		cost := 0
		for i := 0; i < len(o.trace); i++ {
			p := o.trace[i]
			if i >= len(prefix) {
				for alt := 1; alt < p.n; alt++ {
					c := cost
					if p.curEnabled {
						c++
					}
					if c > opt.MaxPreemptions {
						continue
					}
					child := make([]int, i+1)
					copy(child, choices[:i])
					child[i] = alt
					stack = append(stack, child)
				}
			}
			if p.chosen != 0 && p.curEnabled {
				cost++
			}
		}
	}
	return rep
}

// Replay runs one recorded schedule and returns its failure message ("" if none) and event log.
func Replay(choices []int, body func()) (string, []string) {
	o := runOnce(choices, 20000, body)
	return o.failure, o.events
}

func firstLine(s string) string {
	if i := strings.IndexByte(s, '\n'); i >= 0 {
		return s[:i]
	}
	return s
}
