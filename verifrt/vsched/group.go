package vsched

import "sync"

// Group joins harness threads both under the explorer (controlled threads) and in the free-running
// race-detector pass (plain goroutines).
type Group struct {
	n    int
	real sync.WaitGroup
}

func (g *Group) Go(name string, f func()) {
	if active == nil {
		g.real.Add(1)
		go func() {
			defer g.real.Done()
			f()
		}()
		return
	}
	g.n++
	Go(name, func() {
		defer func() { g.n-- }()
		f()
	})
}

func (g *Group) Wait() {
	if active == nil {
		g.real.Wait()
		return
	}
	Block("Group.Wait", func() bool { return g.n == 0 })
}
