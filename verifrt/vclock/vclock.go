// Package vclock is the clock seam: files whose behaviour depends on wall time are rewritten (build
// overlay, textual time.Now() -> vclock.Now()) to read this clock, which the harness sets.
package vclock

import "time"

var fixed *time.Time

// Set pins the clock; Reset returns to real time.
func Set(t time.Time) { fixed = &t }
func Reset()          { fixed = nil }

func Now() time.Time {
	if fixed != nil {
		return *fixed
	}
	return time.Now()
}
