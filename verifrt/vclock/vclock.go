// Package vclock is the clock seam: files whose behaviour depends on wall time are rewritten (build
// overlay, textual time.Now() -> vclock.Now()) to read this clock, which the harness sets.
package vclock

import (
	"runtime"
	"sync"
	"sync/atomic"
	"time"
)

var fixed *time.Time

// Set pins the clock; Reset returns to real time.
func Set(t time.Time) { fixed = &t }
func Reset()          { fixed = nil }

func Now() time.Time {
	if fixed != nil {
		return *fixed
	}
	return time.Now()
}

// ---- virtual tickers ---------------------------------------------------------------------------

// Ticker replaces *time.Ticker in files rewritten by the clock seam: it never fires by itself, the harness
// fires all live tickers with Tick().
type Ticker struct {
	C       <-chan time.Time
	c       chan time.Time
	stopped bool
}

var (
	mu      sync.Mutex
	tickers []*Ticker
)

func NewTicker(d time.Duration) *Ticker {
	c := make(chan time.Time)
	t := &Ticker{C: c, c: c}
	mu.Lock()
	tickers = append(tickers, t)
	mu.Unlock()
	return t
}

func (t *Ticker) Stop()                 { t.stopped = true }
func (t *Ticker) Reset(d time.Duration) {}

// Done is called (through the clock-seam rewrite) by a ticker loop when it has finished the work of one tick.
func Done() { atomic.AddInt64(&doneCount, 1) }

var doneCount int64

// Tick delivers one tick to every live ticker and waits until the receiving loop reports (Done) that the
// work triggered by the tick is complete, so the harness never changes the clock under a running sweep.
func Tick() {
	mu.Lock()
	live := append([]*Ticker{}, tickers...)
	mu.Unlock()
	for _, t := range live {
		if t.stopped {
			continue
		}
		before := atomic.LoadInt64(&doneCount)
		select {
		case t.c <- Now():
		case <-time.After(5 * time.Second):
			continue // nobody listens on this ticker any more
		}
		deadline := time.Now().Add(10 * time.Second)
		for atomic.LoadInt64(&doneCount) == before {
			if time.Now().After(deadline) {
				panic("vclock: ticker loop did not report completion of a tick")
			}
			runtime.Gosched()
		}
	}
}

// WaitTickers blocks until at least n tickers exist (a loop that creates its ticker in its own goroutine).
func WaitTickers(n int) {
	deadline := time.Now().Add(10 * time.Second)
	for {
		mu.Lock()
		c := len(tickers)
		mu.Unlock()
		if c >= n {
			return
		}
		if time.Now().After(deadline) {
			panic("vclock: expected ticker was never created")
		}
		runtime.Gosched()
	}
}

// ResetTickers forgets all tickers (between scenarios).
func ResetTickers() {
	mu.Lock()
	tickers = nil
	mu.Unlock()
}
