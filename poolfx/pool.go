package poolfx

import (
	"context"
	"fmt"
	"sort"

	"github.com/LiskHQ/lisk-engine/pkg/blockchain"
	"github.com/LiskHQ/lisk-engine/pkg/codec"
	"github.com/LiskHQ/lisk-engine/pkg/labi"
	"github.com/LiskHQ/lisk-engine/pkg/log"
	"github.com/LiskHQ/lisk-engine/pkg/p2p"
	"github.com/LiskHQ/lisk-engine/pkg/txpool"

	"verif/nolog"
)

// ---- tx pool fixture -------------------------------------------------------------------------

type fakeConn struct{}

func (fakeConn) Broadcast(ctx context.Context, event string, data []byte) error { return nil }
func (fakeConn) RegisterRPCHandler(endpoint string, handler p2p.RPCHandler, opts ...p2p.RPCHandlerOption) error {
	return nil
}
func (fakeConn) RegisterEventHandler(name string, handler p2p.EventHandler, validator p2p.Validator) error {
	return nil
}
func (fakeConn) ApplyPenalty(pid p2p.PeerID, score int) {}
func (fakeConn) RequestFrom(ctx context.Context, peerID p2p.PeerID, procedure string, data []byte) p2p.Response {
	return p2p.Response{}
}
func (fakeConn) Publish(ctx context.Context, topicName string, data []byte) error { return nil }

// Verifier answers VerifyTransaction from a per-transaction script: params[0] = 0 ok, 1 invalid, 3 pending.
type Verifier struct{}

func (Verifier) VerifyTransaction(req *labi.VerifyTransactionRequest) (*labi.VerifyTransactionResponse, error) {
	p := req.Transaction.Params
	res := labi.TxVerifyResultOk
	if len(p) > 0 && p[0] == 1 {
		res = labi.TxVerifyResultInvalid
	}
	if len(p) > 0 && p[0] == 3 {
		res = labi.TxVerifyResultPending
	}
	return &labi.VerifyTransactionResponse{Result: res}, nil
}

// Logger discards everything.
var Logger log.Logger = nolog.L{}
var poolLogger = Logger

type PoolCfg struct {
	Max, PerSender int
	ReplaceDiff    uint64
}

func NewPool(c PoolCfg) *txpool.TransactionPool {
	p := txpool.NewTransactionPool(&txpool.TransactionPoolConfig{MaxTransactions: c.Max, MaxTransactionsPerAccount: c.PerSender, MinReplacementFeeDifference: c.ReplaceDiff})
	if err := p.Init(context.Background(), poolLogger, nil, nil, fakeConn{}, Verifier{}); err != nil {
		panic(err)
	}
	return p
}

// PoolTx builds a deterministic transaction: sender index, nonce, fee level, verify script.
func PoolTx(sender int, nonce uint64, fee uint64, script byte) *blockchain.Transaction {
	pk := make([]byte, 32)
	pk[0] = byte(sender + 1)
	tx := &blockchain.Transaction{Module: "m", Command: "c", Nonce: nonce, Fee: fee, SenderPublicKey: pk, Params: []byte{script}, Signatures: []codec.Hex{make([]byte, 64)}}
	tx.Init()
	return tx
}

// PoolInvariants returns the violated index invariants of the pool (empty = consistent).
// known maps tx ID -> transaction for everything the harness ever offered.
func PoolInvariants(p *txpool.TransactionPool, c PoolCfg, known map[string]*blockchain.Transaction) []string {
	s := p.VerifSnapshot()
	bad := []string{}
	if fmt.Sprintf("%x", s.All) != fmt.Sprintf("%x", s.FeeQueue) {
		bad = append(bad, fmt.Sprintf("index-mismatch: allTransactions has %d ids, fee queue has %d", len(s.All), len(s.FeeQueue)))
	}
	inLists := []string{}
	for _, l := range s.Senders {
		if len(l.ByNonce) == 0 {
			bad = append(bad, "empty-sender-list-kept")
		}
		if len(l.ByNonce) > c.PerSender {
			bad = append(bad, fmt.Sprintf("per-sender-limit-exceeded: %d > %d", len(l.ByNonce), c.PerSender))
		}
		ns := []uint64{}
		for n, id := range l.ByNonce {
			ns = append(ns, n)
			inLists = append(inLists, id)
			tx, ok := known[id]
			if !ok {
				bad = append(bad, "unknown-transaction-in-list")
				continue
			}
			if tx.Nonce != n || string(tx.SenderAddress()) != l.Address {
				bad = append(bad, fmt.Sprintf("transaction-at-wrong-slot: nonce %d stored at %d", tx.Nonce, n))
			}
		}
		sort.Slice(ns, func(i, j int) bool { return ns[i] < ns[j] })
		if fmt.Sprint(ns) != fmt.Sprint(l.Nonces) {
			bad = append(bad, fmt.Sprintf("nonce-heap-mismatch: map %v heap %v", ns, l.Nonces))
		}
		for i, n := range l.Processables {
			id, ok := l.ByNonce[n]
			if !ok {
				bad = append(bad, fmt.Sprintf("processable-not-in-list: nonce %d", n))
				continue
			}
			if i > 0 && n != l.Processables[i-1]+1 {
				bad = append(bad, fmt.Sprintf("processables-not-consecutive: %v", l.Processables))
			}
			if tx := known[id]; tx != nil && len(tx.Params) > 0 && tx.Params[0] != 0 {
				bad = append(bad, fmt.Sprintf("processable-did-not-pass-verification: nonce %d answered %d", n, tx.Params[0]))
			}
		}
	}
	sort.Strings(inLists)
	if fmt.Sprintf("%x", inLists) != fmt.Sprintf("%x", s.All) {
		bad = append(bad, fmt.Sprintf("index-mismatch: %d transactions in sender lists, %d in allTransactions", len(inLists), len(s.All)))
	}
	if len(s.All) > c.Max {
		bad = append(bad, fmt.Sprintf("pool-limit-exceeded: %d > %d", len(s.All), c.Max))
	}
	// public views agree with the indexes
	if len(p.GetAll()) != len(s.All) {
		bad = append(bad, "GetAll-size-differs")
	}
	return bad
}
