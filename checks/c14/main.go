// C14: the transaction pool keeps its indexes consistent, bounded and live.
// (a) every operation sequence up to depth D over a small alphabet, executed as a single controlled
//
//	thread (a self-deadlock shows as "no enabled thread"), index invariants after every operation;
//
// (b) interleavings of 2-3 threads (preemption bounded); (c) free-running race-detector pass.
package main

import (
	"bytes"
	"encoding/json"
	"fmt"
	"math"
	"math/big"
	"os"
	"os/exec"
	"regexp"
	"sort"
	"strings"
	"time"

	"github.com/LiskHQ/lisk-engine/pkg/blockchain"
	"github.com/LiskHQ/lisk-engine/pkg/verifrt/vsched"

	"verif/conc"
	"verif/vlib"
)

type opT struct {
	Kind   string `json:"kind"` // add remove reorg get
	Sender int    `json:"sender"`
	Nonce  uint64 `json:"nonce"`
	Fee    uint64 `json:"fee"`
	Script byte   `json:"script"`
}

func (o opT) String() string {
	return fmt.Sprintf("%s(s%d,n%d,f%d,v%d)", o.Kind, o.Sender, o.Nonce, o.Fee, o.Script)
}

func (o opT) tx() *blockchain.Transaction { return conc.PoolTx(o.Sender, o.Nonce, o.Fee, o.Script) }

const feeLo, feeHi = 100000, 900000

func alphabet(thorough bool) []opT {
	ops := []opT{}
	for s := 0; s < 2; s++ {
		for n := uint64(0); n < 3; n++ {
			ops = append(ops, opT{"add", s, n, feeLo, 0}, opT{"add", s, n, feeHi, 0})
			if n < 2 {
				ops = append(ops, opT{"remove", s, n, feeLo, 0})
			}
		}
	}
	ops = append(ops, opT{"add", 0, 1, feeLo + 5, 3}, opT{"add", 1, 0, feeLo + 7, 1}, opT{"add", 0, 2, feeLo + 9, 1})
	ops = append(ops, opT{"add", 0, 3, feeLo, 0}) // a nonce beyond a gap
	ops = append(ops, opT{"add", 0, 0, math.MaxUint64, 0}) // the largest fee: fee + required increase does not fit into 64 bits
	ops = append(ops, opT{Kind: "reorg"})
	if thorough {
		ops = append(ops, opT{"add", 2, 0, feeLo + 50, 0}, opT{"remove", 0, 0, feeHi, 0})
	}
	return ops
}

type caseT struct {
	Cfg     conc.PoolCfg `json:"cfg"`
	Ops     []opT        `json:"ops"`
	Threads [][]opT      `json:"threads,omitempty"`
	Choices []int        `json:"choices,omitempty"`
}

func apply(p interface {
	Add(*blockchain.Transaction) bool
	Remove([]byte) bool
	VerifReorg()
	Get([]byte) (*blockchain.Transaction, bool)
}, o opT, known map[string]*blockchain.Transaction) string {
	switch o.Kind {
	case "add":
		tx := o.tx()
		known[string(tx.ID)] = tx
		return fmt.Sprint(p.Add(tx))
	case "remove":
		return fmt.Sprint(p.Remove(o.tx().ID))
	case "reorg":
		p.VerifReorg()
	case "get":
		_, ok := p.Get(o.tx().ID)
		return fmt.Sprint(ok)
	}
	return ""
}

func classify(msg string) string {
	if i := strings.IndexByte(msg, ':'); i > 0 && !strings.HasPrefix(msg, "deadlock") && !strings.HasPrefix(msg, "panic") {
		return msg[:i]
	}
	if strings.HasPrefix(msg, "deadlock") {
		m := regexp.MustCompile(`T\d+\(([^)]*)\) waits at ([A-Za-z.]+)`).FindAllStringSubmatch(msg, -1)
		parts := []string{}
		for _, x := range m {
			parts = append(parts, x[2])
		}
		return "deadlock: " + strings.Join(parts, " / ")
	}
	if i := strings.IndexByte(msg, '\n'); i > 0 {
		msg = msg[:i]
	}
	return msg
}

// runSeq executes one operation sequence as a single controlled thread and returns the first violation.
func runSeq(cfg conc.PoolCfg, seq []opT) (string, int) {
	fail := ""
	at := -1
	msg, _ := vsched.Replay(nil, func() {
		p := conc.NewPool(cfg)
		known := map[string]*blockchain.Transaction{}
		for i, o := range seq {
			at = i
			// the transaction the pool holds at the incoming transaction's sender and nonce, if any
			var holder *blockchain.Transaction
			if o.Kind == "add" {
				in := o.tx()
				// when the pool is full the capacity rule comes first: it may evict the holder (unprocessable transactions go
				// first, whatever their fee) before the newcomer is added as a fresh transaction; that is eviction, not a
				// replacement, and the replacement clause does not apply
				held := 0
				for _, k := range known {
					if _, ok := p.Get(k.ID); ok {
						held++
					}
				}
				for _, k := range known {
					if held >= cfg.Max {
						break
					}
					if bytes.Equal(k.SenderPublicKey, in.SenderPublicKey) && k.Nonce == in.Nonce && !bytes.Equal(k.ID, in.ID) {
						if _, ok := p.Get(k.ID); ok {
							holder = k
						}
					}
				}
			}
			apply(p, o, known)
			if holder != nil {
				// a replacement needs the configured fee increase (computed without wrap-around)
				in := o.tx()
				need := new(big.Int).Add(new(big.Int).SetUint64(holder.Fee), new(big.Int).SetUint64(cfg.ReplaceDiff))
				_, inPool := p.Get(in.ID)
				if inPool && new(big.Int).SetUint64(in.Fee).Cmp(need) < 0 {
					fail = fmt.Sprintf("replacement-without-fee-increase: the transaction with fee %d replaced the one with fee %d at the same sender and nonce although the configured increase is %d", in.Fee, holder.Fee, cfg.ReplaceDiff)
					return
				}
			}
			if bad := conc.PoolInvariants(p, cfg, known); len(bad) > 0 {
				fail = bad[0]
				return
			}
		}
	})
	if msg != "" {
		return msg, at
	}
	return fail, at
}

func main() {
	r := vlib.Start("C14", "model_checking", 4*time.Minute, 20*time.Minute)
	if strings.HasPrefix(r.Only, "RACEPASS:") {
		n := 0
		fmt.Sscanf(strings.TrimPrefix(r.Only, "RACEPASS:"), "%d", &n)
		for i := 0; i < n; i++ {
			for _, s := range scenarios() {
				done := make(chan struct{})
				go func() { defer close(done); s.body() }()
				select {
				case <-done:
				case <-time.After(30 * time.Second):
					fmt.Println("RACEPASS-HANG in", s.name)
					os.Exit(3)
				}
			}
		}
		fmt.Println("RACEPASS-DONE")
		os.Exit(0)
	}
	r.Assume("the verifier answers per transaction from a script (ok / pending / invalid); 'passed verification' means answered ok")
	r.Assume("block-applied / block-reverted notifications reach the pool as Remove / Add calls (the pool has no other entry point for them)")
	depth := 3
	if r.Thorough() {
		depth = 4
	}
	ops := alphabet(r.Thorough())
	cfgs := []conc.PoolCfg{{1, 1, 1}, {2, 1, 1}, {2, 2, 1}, {3, 2, 1}, {3, 2, 1000000}}
	if r.ReplayPath != "" {
		var c caseT
		if err := r.ReadReplay(&c); err == nil && len(c.Ops) > 0 {
			msg, at := runSeq(c.Cfg, c.Ops)
			fmt.Println("replay:", msg, "at op", at)
			if msg != "" {
				r.Violation("seq:"+classify(msg), msg, c)
			}
		}
		r.Finish()
	}
	// ---- (a) sequences ----
	type job struct {
		ci, first int
	}
	jobs := []job{}
	for ci := range cfgs {
		for f := range ops {
			jobs = append(jobs, job{ci, f})
		}
	}
	seen := map[string]bool{}
	r.RunSharded(len(jobs), func(ji int) {
		j := jobs[ji]
		cfg := cfgs[j.ci]
		var rec func(seq []opT)
		rec = func(seq []opT) {
			if r.Expired() {
				r.Cap("deadline")
				return
			}
			msg, at := runSeq(cfg, seq)
			r.Add("transitions", 1)
			if msg != "" {
				if at == len(seq)-1 { // first manifestation is at the newest op: report; longer sequences are not extended
					k := "seq:" + classify(msg)
					if !seen[k] {
						seen[k] = true
						r.Violation(k, fmt.Sprintf("%s after %v with limits max=%d perSender=%d replaceDiff=%d", msg, seq, cfg.Max, cfg.PerSender, cfg.ReplaceDiff), caseT{Cfg: cfg, Ops: seq})
					} else {
						r.Add("further_sequence_violations", 1)
					}
				}
				return
			}
			r.Add("states", 1)
			if len(seq) == depth {
				return
			}
			for _, o := range ops {
				rec(append(append([]opT{}, seq...), o))
			}
		}
		rec([]opT{ops[j.first]})
		// deeper histories of one sender (promotion, gaps, removals): depth 5 over the single-sender sub-alphabet
		if cfg.PerSender >= 2 {
			single := []opT{}
			for _, o := range ops {
				if o.Kind == "reorg" || (o.Sender == 0 && o.Script == 0 && o.Fee == feeLo) {
					single = append(single, o)
				}
			}
			first := ops[j.first]
			if first.Kind == "reorg" || (first.Sender == 0 && first.Script == 0 && first.Fee == feeLo) {
				save, saveOps := depth, ops
				depth, ops = 5, single
				rec([]opT{first})
				depth, ops = save, saveOps
			}
		}
	})
	// ---- (b) interleavings ----
	bound := 2
	if r.Thorough() {
		bound = 3
	}
	if os.Getenv("VERIF_WORKER") == "" {
		for _, s := range scenarios() {
			rep := vsched.Explore(vsched.Options{Name: s.name, MaxPreemptions: bound, Deadline: time.Now().Add(r.Remaining() / 3)}, s.body)
			r.AddMap("executions_per_scenario", s.name, rep.Executions)
			r.AddMap("distinct_outcomes_per_scenario", s.name, int64(len(rep.Outcomes)))
			r.Add("interleaving_executions", rep.Executions)
			r.Add("transitions", rep.Points)
			if !rep.Exhaustive {
				r.Cap(s.name + ": exploration stopped early")
			}
			best := map[string]vsched.Failure{}
			for _, f := range rep.Failures {
				k := "conc:" + s.name + ":" + classify(f.Msg)
				if b, ok := best[k]; !ok || f.Preemptions < b.Preemptions {
					best[k] = f
				}
			}
			keys := []string{}
			for k := range best {
				keys = append(keys, k)
			}
			sort.Strings(keys)
			for _, k := range keys {
				f := best[k]
				again, _ := vsched.Replay(f.Choices, s.body)
				if classify(again) != classify(f.Msg) {
					fmt.Printf("HARNESS-ERROR schedule for %q does not replay (%q)\n", k, again)
					os.Exit(2)
				}
				r.Violation(k, fmt.Sprintf("%s [scenario %s, %d preemption(s), schedule %v]", f.Msg, s.name, f.Preemptions, f.Steps), caseT{Threads: s.threads, Choices: f.Choices})
			}
			r.Sample(map[string]interface{}{"scenario": s.name, "threads": s.threads, "executions": rep.Executions})
		}
		racePass(r)
	}
	r.Set("traces_validated_against_impl", r.Get("transitions"))
	r.Set("sequence_depth", depth)
	r.Set("preemption_bound_completed", bound)
	r.Set("explanation", "(a) states = operation sequences (alphabet of 19-21 ops x 5 limit configurations) replayed on a fresh real pool as one controlled thread with all index invariants after every op; (b) transitions include the schedule points of the interleaving executions of the instrumented pool; (c) race detector pass of the same scenarios")
	r.Sample(caseT{Cfg: cfgs[2], Ops: []opT{ops[0], ops[2], ops[len(ops)-1]}})
	r.Finish()
}

type scenario struct {
	name    string
	threads [][]opT
	cfg     conc.PoolCfg
	body    func()
}

func scenarios() []scenario {
	mk := func(name string, cfg conc.PoolCfg, setup []opT, threads ...[]opT) scenario {
		s := scenario{name: name, threads: threads, cfg: cfg}
		s.body = func() {
			p := conc.NewPool(cfg)
			known := map[string]*blockchain.Transaction{}
			for _, o := range setup {
				apply(p, o, known)
			}
			for _, th := range threads {
				for _, o := range th {
					tx := o.tx()
					known[string(tx.ID)] = tx
				}
			}
			var g vsched.Group
			for ti, th := range threads {
				th := th
				g.Go(fmt.Sprintf("t%d", ti), func() {
					mine := map[string]*blockchain.Transaction{}
					for _, o := range th {
						vsched.Note(o.String() + "=" + apply(p, o, mine))
					}
				})
			}
			g.Wait()
			if bad := conc.PoolInvariants(p, cfg, known); len(bad) > 0 {
				vsched.Fail(bad[0])
			}
		}
		return s
	}
	big := conc.PoolCfg{Max: 4, PerSender: 2, ReplaceDiff: 1}
	return []scenario{
		mk("add-add-same-slot", big, nil, []opT{{"add", 0, 0, feeLo, 0}}, []opT{{"add", 0, 0, feeHi, 0}}),
		mk("add-vs-reorg", big, []opT{{"add", 0, 0, feeLo, 0}}, []opT{{"add", 0, 1, feeLo, 0}}, []opT{{Kind: "reorg"}}),
		mk("add-vs-remove", big, []opT{{"add", 0, 0, feeLo, 0}, {"add", 1, 0, feeLo, 0}}, []opT{{"add", 0, 1, feeHi, 0}}, []opT{{"remove", 0, 0, feeLo, 0}}),
		mk("reorg-invalid-vs-remove", big, []opT{{"add", 0, 0, feeLo, 0}, {"add", 0, 1, feeLo + 9, 1}}, []opT{{Kind: "reorg"}}, []opT{{"remove", 0, 0, feeLo, 0}, {"get", 0, 1, feeLo + 9, 1}}),
		mk("add-at-capacity-vs-get", conc.PoolCfg{Max: 1, PerSender: 1, ReplaceDiff: 1}, []opT{{"add", 0, 0, feeLo, 0}}, []opT{{"add", 1, 0, feeHi, 0}}, []opT{{"get", 0, 0, feeLo, 0}}),
		// reorg starts one goroutine per sender list in Go map order, which the scheduler cannot own: scenarios with reorg use one sender
		// a processable transaction disappears (block applied / replaced) while reorg verifies the next promotable one
		mk("reorg-vs-remove-of-processable", conc.PoolCfg{Max: 4, PerSender: 3, ReplaceDiff: 1}, []opT{{"add", 0, 0, feeLo, 0}, {"add", 0, 1, feeLo, 0}, {Kind: "reorg"}, {"add", 0, 2, feeLo, 0}}, []opT{{Kind: "reorg"}}, []opT{{"remove", 0, 1, feeLo, 0}}),
		mk("reorg-vs-replace-of-processable", conc.PoolCfg{Max: 4, PerSender: 3, ReplaceDiff: 1}, []opT{{"add", 0, 0, feeLo, 0}, {"add", 0, 1, feeLo, 0}, {Kind: "reorg"}, {"add", 0, 2, feeLo, 0}}, []opT{{Kind: "reorg"}}, []opT{{"add", 0, 1, feeHi, 0}}),
		// the promotable transaction itself is replaced (same nonce, higher fee, verification answers pending / invalid) while reorg
		// verifies the old one with the pool unlocked: the replacement must not become processable on the old one's verdict
		mk("reorg-vs-replace-of-promotable-pending", conc.PoolCfg{Max: 4, PerSender: 3, ReplaceDiff: 1}, []opT{{"add", 0, 0, feeLo, 0}}, []opT{{Kind: "reorg"}}, []opT{{"add", 0, 0, feeHi, 3}}),
		mk("reorg-vs-replace-of-second-promotable-invalid", conc.PoolCfg{Max: 4, PerSender: 3, ReplaceDiff: 1}, []opT{{"add", 0, 0, feeLo, 0}, {Kind: "reorg"}, {"add", 0, 1, feeLo, 0}}, []opT{{Kind: "reorg"}}, []opT{{"add", 0, 1, feeHi, 1}}),
		mk("reorg-vs-reorg-vs-add", big, []opT{{"add", 0, 0, feeLo, 0}}, []opT{{Kind: "reorg"}}, []opT{{Kind: "reorg"}}, []opT{{"add", 0, 1, feeLo, 0}}),
	}
}

func racePass(r *vlib.Run) {
	b, _ := os.ReadFile("/verif/.overlay/c14/overlay.json")
	var full struct{ Replace map[string]string }
	_ = json.Unmarshal(b, &full)
	rep := map[string]string{}
	for k, v := range full.Replace {
		if strings.Contains(k, "/pkg/verifrt/") {
			rep[k] = v
		}
	}
	if mo := os.Getenv("VERIF_MUT_OVERLAY"); mo != "" {
		var m struct{ Replace map[string]string }
		if mb, err := os.ReadFile(mo); err == nil && json.Unmarshal(mb, &m) == nil {
			for k, v := range m.Replace {
				rep[k] = v
			}
		}
	}
	ob, _ := json.Marshal(map[string]interface{}{"Replace": rep})
	_ = os.WriteFile("/verif/.overlay/c14-rt.json", ob, 0o644)
	cmd := exec.Command("go", "build", "-race", "-tags", "verif", "-overlay=/verif/.overlay/c14-rt.json", "-o", "/verif/bin/c14-race", "./checks/c14")
	cmd.Dir = "/verif"
	cmd.Env = append(os.Environ(), "GOFLAGS=-mod=mod", "GOPROXY=off", "GOSUMDB=off", "GOTOOLCHAIN=local")
	if out, err := cmd.CombinedOutput(); err != nil {
		fmt.Println("HARNESS-ERROR race build failed:", err, string(out))
		os.Exit(2)
	}
	iters := "100"
	if r.Thorough() {
		iters = "600"
	}
	for _, procs := range []string{"2", "16"} {
		c := exec.Command("/verif/bin/c14-race", "--only", "RACEPASS:"+iters)
		c.Env = append(os.Environ(), "GOMAXPROCS="+procs, "GORACE=halt_on_error=0")
		out, _ := c.CombinedOutput()
		r.Add("race_pass_runs", 1)
		for _, rp := range strings.Split(string(out), "WARNING: DATA RACE")[1:] {
			frames := regexp.MustCompile(`github.com/LiskHQ/lisk-engine/pkg/[^\s(]+(\([^)]*\))?[^\s(]*`).FindAllString(rp, -1)
			uniq := []string{}
			seen := map[string]bool{}
			for _, f := range frames {
				f = regexp.MustCompile(`\.func\d+(\.\d+)*`).ReplaceAllString(f, "")
				if !seen[f] && !strings.Contains(f, "verifrt") {
					seen[f] = true
					uniq = append(uniq, strings.TrimPrefix(f, "github.com/LiskHQ/lisk-engine/pkg/"))
				}
			}
			if len(uniq) > 2 {
				uniq = uniq[:2]
			}
			sort.Strings(uniq)
			lines := strings.Split(rp, "\n")
			if len(lines) > 24 {
				lines = lines[:24]
			}
			r.Violation("data-race: "+strings.Join(uniq, " <-> "), "Go race detector report in the free-running pass:\n"+strings.Join(lines, "\n"), nil)
		}
		if !strings.Contains(string(out), "RACEPASS-DONE") {
			t := string(out)
			if len(t) > 500 {
				t = t[len(t)-500:]
			}
			r.Violation("race-pass-did-not-finish", "free-running pass did not finish (deadlock or crash): "+t, nil)
		}
	}
}
