// C05: deleting the tip restores exactly the previous persistent node state.
// States = every chain of <=K menu blocks on the real node; for each state, every menu block V and
// saveTemp in {false,true}: dump -> apply V -> delete -> dump must be equal (modulo the monotone
// finalized marker, pruned diff/event keys and the temp key). Plus reorg equivalence and idempotence.
package main

import (
	"bytes"
	"fmt"
	"time"

	"github.com/LiskHQ/lisk-engine/pkg/blockchain"
	"github.com/LiskHQ/lisk-engine/pkg/db/diffdb"

	"verif/node"
	"verif/vlib"
)

type caseT struct {
	Path     []int  `json:"path"`
	Shape    int    `json:"shape"`
	SaveTemp bool   `json:"saveTemp"`
	Variant  string `json:"variant"`
	KeepEv   int    `json:"keepEvents"`
}

const (
	pfxTemp      = 7
	pfxEvents    = 9
	pfxFinalized = 27
	pfxDiff      = 51
)

func u32(b []byte) uint32 {
	return uint32(b[0])<<24 | uint32(b[1])<<16 | uint32(b[2])<<8 | uint32(b[3])
}

// compareDumps returns the list of differences that the property does not allow.
func compareDumps(before, after map[string]string, tempHeight uint32, saveTemp bool, applied *blockchain.Block) []string {
	bad := []string{}
	finB := u32([]byte(before[string([]byte{pfxFinalized})]))
	finA := u32([]byte(after[string([]byte{pfxFinalized})]))
	if finA < finB {
		bad = append(bad, fmt.Sprintf("finalized marker decreased %d->%d", finB, finA))
	}
	for k, v := range before {
		w, ok := after[k]
		kb := []byte(k)
		if ok && w == v {
			continue
		}
		if kb[0] == pfxFinalized {
			continue
		}
		if !ok && kb[0] == pfxDiff && len(kb) == 5 && u32(kb[1:]) < finA {
			continue // pruned below the (grown) finalized height
		}
		if !ok && kb[0] == pfxEvents && len(kb) == 5 && u32(kb[1:]) <= finA {
			continue // events pruned at or below finalized height
		}
		if !ok {
			bad = append(bad, fmt.Sprintf("key %x lost", kb))
		} else {
			bad = append(bad, fmt.Sprintf("key %x changed", kb))
		}
	}
	for k, v := range after {
		if _, ok := before[k]; ok {
			continue
		}
		kb := []byte(k)
		if kb[0] == pfxTemp && len(kb) == 5 && u32(kb[1:]) == tempHeight && saveTemp {
			if applied != nil && !bytes.Equal([]byte(v), applied.Encode()) {
				bad = append(bad, "temp block differs from the removed block")
			}
			continue
		}
		bad = append(bad, fmt.Sprintf("key %x left behind", kb))
	}
	if saveTemp {
		tk := string(append([]byte{pfxTemp}, byte(tempHeight>>24), byte(tempHeight>>16), byte(tempHeight>>8), byte(tempHeight)))
		if _, ok := after[tk]; !ok {
			bad = append(bad, "temp block not stored although requested")
		}
	}
	return bad
}

type snap struct {
	dump       map[string]string
	tipID      string
	pv, pc, ce uint32
	appRoot    string
}

func take(n *node.Node) snap {
	a, b, c := n.BFTHeights()
	return snap{n.CanonicalDump(), string(n.Tip().Header.ID), a, b, c, string(n.App.Top())}
}

func clearTemp(n *node.Node) { n.Chain.DataAccess().ClearTempBlocks() }

func main() {
	r := vlib.Start("C05", "model_checking", 4*time.Minute, 20*time.Minute)
	r.Assume("node fixture: real Chain+Executer on in-memory pebble, deterministic mock application; blocks come from the shape menu (empty, txs, assets+events, failing tx, validator join, re-weight, skipped slot, aggregate commit)")
	K := 3
	if r.Thorough() {
		K = 5
	}
	var paths [][]int
	var gen func(p []int)
	gen = func(p []int) {
		paths = append(paths, append([]int{}, p...))
		if len(p) == K {
			return
		}
		for k := 0; k < node.NumShapes; k++ {
			gen(append(p, k))
		}
	}
	if r.ReplayPath != "" {
		var c caseT
		if err := r.ReadReplay(&c); err != nil {
			fmt.Println(err)
			r.Finish()
		}
		paths = [][]int{c.Path}
	} else {
		gen(nil)
		// long histories: every prefix of chains in which an early validator-set change is later pruned from the
		// consensus state (the vote window has moved past it and certification has caught up), so that the block
		// being deleted has itself deleted state keys
		for _, long := range longPaths {
			for l := K + 1; l <= len(long); l++ {
				paths = append(paths, append([]int{}, long[:l]...))
			}
		}
	}
	keepVariants := []int{300, 1}
	r.RunSharded(len(paths), func(i int) {
		if r.Expired() {
			r.Cap("deadline")
			return
		}
		path := paths[i]
		for _, keep := range keepVariants {
			cfg := node.MenuConfig()
			cfg.KeepEvents = keep
			n, err := node.BuildPath(cfg, path)
			if err != nil {
				// a path whose blocks cannot all be built/applied is not a state (e.g. removed validator's slot)
				r.Add("unbuildable_paths", 1)
				continue
			}
			r.Add("states", 1)
			rebuild := func() {
				n.Close()
				n, _ = node.BuildPath(cfg, path)
			}
			for k := 0; k < node.NumShapes; k++ {
				for _, saveTemp := range []bool{false, true} {
					c := caseT{path, k, saveTemp, "apply-delete", keep}
					s0 := take(n)
					n.DrainEvents()
					b, err := n.ApplyMenu(k, 0)
					if err != nil {
						r.Add("shape_not_applicable", 1)
						s1 := take(n)
						if d := node.DiffDumps(s0.dump, s1.dump); len(d) > 0 {
							r.Violation("failed-apply-changed-db", fmt.Sprintf("applying shape %d failed (%v) but the DB changed: %v", k, err, d), c)
							rebuild()
						}
						continue
					}
					r.Add("transitions", 2)
					if raw, ok := n.DB.Get(append([]byte{51}, be32(b.Header.Height)...)); ok {
						df := &diffdb.Diff{}
						if df.Decode(raw) == nil && len(df.Deleted) > 0 {
							r.Add("applied_blocks_that_deleted_state_keys", 1)
						}
					}
					if err := n.Exec.VerifDeleteBlock(b, saveTemp); err != nil {
						r.Violation("delete-tip-failed", fmt.Sprintf("deleting the freshly applied tip failed: %v (path %v shape %d)", err, path, k), c)
						rebuild()
						continue
					}
					s1 := take(n)
					bad := compareDumps(s0.dump, s1.dump, b.Header.Height, saveTemp, b)
					if s1.tipID != s0.tipID {
						bad = append(bad, "cached tip not restored")
					}
					if s1.pv != s0.pv || s1.pc != s0.pc || s1.ce != s0.ce {
						bad = append(bad, fmt.Sprintf("BFT heights (%d,%d,%d) -> (%d,%d,%d)", s0.pv, s0.pc, s0.ce, s1.pv, s1.pc, s1.ce))
					}
					if s1.appRoot != s0.appRoot {
						bad = append(bad, "application state root not restored")
					}
					if len(n.App.Faults) > 0 {
						bad = append(bad, "application protocol misuse: "+n.App.Faults[0])
					}
					if len(bad) > 0 {
						r.Violation(fmt.Sprintf("apply-delete-differs:shape%d:temp%v:%s", k, saveTemp, bad[0][:min(len(bad[0]), 12)]),
							fmt.Sprintf("after apply+delete of shape %d on path %v (saveTemp=%v, keepEvents=%d): %v", k, path, saveTemp, keep, bad), c)
						rebuild()
						continue
					}
					r.Add("apply_delete_pairs", 1)
					if s1.dump[string([]byte{pfxFinalized})] != s0.dump[string([]byte{pfxFinalized})] {
						r.Add("pairs_where_finality_advanced_in_deleted_block", 1)
					}
					if saveTemp {
						tb, err := n.Chain.DataAccess().GetTempBlocks()
						if err != nil || len(tb) == 0 || !bytes.Equal(tb[0].Header.ID, b.Header.ID) {
							r.Violation("temp-block-not-retrievable", fmt.Sprintf("removed block not retrievable as temp block: %v", err), c)
						}
						clearTemp(n)
					}
				}
			}
			// reorg equivalence: apply V1, delete, apply V2  ==  apply V2 directly
			for k1 := 0; k1 < node.NumShapes; k1++ {
				for k2 := 0; k2 < node.NumShapes; k2++ {
					if k1 == k2 || (len(path) == K && (k1+k2)%3 != 0 && !r.Thorough()) {
						continue
					}
					reorg(r, cfg, path, k1, k2, keep)
				}
			}
			// unwind: with a 2-block cache, remove tips down to the finalized height; the cached tip must
			// always be the block the height index names
			for _, gh := range []uint32{0, 100} { // also a chain whose genesis block is not at height 0
				ucfg := cfg
				ucfg.MaxBlockCache = 2
				ucfg.GenesisHeight = gh
				un, err := node.BuildPath(ucfg, path)
				if err != nil && gh != 0 && len(path) <= 2 {
					if _, e0 := node.New(ucfg); e0 != nil {
						r.Violation("cache-refill-ignores-genesis-height", fmt.Sprintf("a node whose genesis block is at height %d cannot load its tip into the block cache: %v", gh, e0), caseT{path, -1, false, "unwind", keep})
					}
				}
				if err == nil {
					removed := []*blockchain.Block{}
					for un.Tip() != nil && un.Tip().Header.Height > ucfg.GenesisHeight {
						tip := un.Tip()
						if err := un.Exec.VerifDeleteBlock(tip, false); err != nil {
							break // refused at the finalized height
						}
						r.Add("transitions", 1)
						r.Add("unwind_deletes", 1)
						want, err := un.Chain.DataAccess().GetBlockHeaderByHeight(tip.Header.Height - 1)
						if un.Tip() == nil || err != nil || !bytes.Equal(un.Tip().Header.ID, want.ID) {
							r.Violation("unwind-cached-tip-lost", fmt.Sprintf("after removing %d-th block of path %v with a 2-block cache the cached tip is missing or wrong", tip.Header.Height, path), caseT{path, -1, false, "unwind", keep})
							break
						}
						removed = append(removed, tip)
						for _, rb := range removed {
							// a removed block is gone for every reader: by ID (header and block) and by height
							if hd, err := un.Chain.DataAccess().GetBlockHeader(rb.Header.ID); err == nil && hd != nil {
								r.Violation("removed-block-still-served", fmt.Sprintf("after unwinding path %v (2-block cache) to height %d the removed block of height %d is still returned by GetBlockHeader(id)", path, tip.Header.Height-1, rb.Header.Height), caseT{path, -1, false, "unwind", keep})
							}
							if bl, err := un.Chain.DataAccess().GetBlock(rb.Header.ID); err == nil && bl != nil {
								r.Violation("removed-block-still-served", fmt.Sprintf("after unwinding path %v (2-block cache) to height %d the removed block of height %d is still returned by GetBlock(id)", path, tip.Header.Height-1, rb.Header.Height), caseT{path, -1, false, "unwind", keep})
							}
							if hd, err := un.Chain.DataAccess().GetBlockHeaderByHeight(rb.Header.Height); err == nil && hd != nil {
								r.Violation("removed-block-still-served", fmt.Sprintf("after unwinding path %v (2-block cache) to height %d a header is still returned for height %d", path, tip.Header.Height-1, rb.Header.Height), caseT{path, -1, false, "unwind", keep})
							}
						}
					}
					un.Close()
				}
			}
			// idempotence: three apply/delete rounds of the same block
			n.Close()
			n, _ = node.BuildPath(cfg, path)
			s0 := take(n)
			for round := 0; round < 3; round++ {
				b, err := n.ApplyMenu(2, 0)
				if err != nil {
					break
				}
				if err := n.Exec.VerifDeleteBlock(b, false); err != nil {
					r.Violation("idempotence-delete-failed", err.Error(), caseT{path, 2, false, "idempotence", keep})
					break
				}
				r.Add("transitions", 2)
			}
			if bad := compareDumps(s0.dump, take(n).dump, 0, false, nil); len(bad) > 0 {
				r.Violation("idempotence-differs", fmt.Sprintf("3x apply/delete on path %v: %v", path, bad), caseT{path, 2, false, "idempotence", keep})
			}
			n.Close()
		}
		if len(path) == K && i%97 == 0 {
			r.Sample(map[string]interface{}{"path": path, "experiments": "every menu shape x saveTemp, reorg pairs, 3x idempotence"})
		}
	})
	r.Set("traces_validated_against_impl", r.Get("apply_delete_pairs")+r.Get("reorg_pairs"))
	r.Set("max_chain_length", K)
	r.Set("explanation", "states = distinct menu paths from genesis built on a fresh real node (x2 event-retention settings); transitions = real processValidated/deleteBlock calls; oracle = byte-for-byte DB dump equality modulo the exceptions the property names")
	r.Finish()
}

// longPaths: menu shapes 4/5 = validator join / re-weight, 7 = block with an aggregate commit, 0 = empty block
var longPaths = [][]int{
	{4, 0, 0, 0, 0, 0, 0, 7, 0, 0, 7, 0, 0, 7, 0, 0},
	{0, 0, 5, 0, 0, 0, 7, 0, 0, 0, 7, 0, 0, 7, 0, 0},
	{4, 0, 0, 5, 0, 0, 7, 0, 0, 7, 0, 0, 7, 0, 0, 7},
}

func be32(x uint32) []byte { return []byte{byte(x >> 24), byte(x >> 16), byte(x >> 8), byte(x)} }

func min(a, b int) int {
	if a < b {
		return a
	}
	return b
}

func reorg(r *vlib.Run, cfg node.Config, path []int, k1, k2, keep int) {
	c := caseT{path, k1*10 + k2, false, "reorg", keep}
	nA, errA := node.BuildPath(cfg, path)
	if errA != nil {
		return
	}
	defer nA.Close()
	b1, err := nA.ApplyMenu(k1, 1)
	if err != nil {
		return
	}
	if err := nA.Exec.VerifDeleteBlock(b1, false); err != nil {
		return // reported by the apply/delete experiment
	}
	if _, err := nA.ApplyMenu(k2, 2); err != nil {
		r.Violation(fmt.Sprintf("reorg-second-apply-failed:%d:%d", k1, k2), fmt.Sprintf("after apply(%d)+delete, applying sibling %d failed: %v (path %v)", k1, k2, err, path), c)
		return
	}
	nB, err := node.BuildPath(cfg, path)
	if err != nil {
		return
	}
	defer nB.Close()
	if _, err := nB.ApplyMenu(k2, 2); err != nil {
		return
	}
	r.Add("transitions", 4)
	r.Add("reorg_pairs", 1)
	da, db := nA.CanonicalDump(), nB.CanonicalDump()
	if bad := compareDumps(db, da, 0, false, nil); len(bad) > 0 {
		r.Violation(fmt.Sprintf("reorg-not-equivalent:%d:%d", k1, k2), fmt.Sprintf("apply(%d),delete,apply(%d) differs from apply(%d) directly on path %v: %v", k1, k2, k2, path, bad), c)
	}
}
