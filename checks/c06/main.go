// C06: aggregate commits are sound, bounded and self-consistent; pool admission is sound.
// Bounded-exhaustive on the real node: every signer subset x every height around
// maxHeightCertified / maxHeightPrecommitted / the next parameter change x every tampering through
// verifyAggregateCommit against the LIP-0061 predicate; pool -> GetAggregateCommit -> verification round
// trip for every subset; every single-commit message of the admission menu through singleCommitValidator.
package main

import (
	"bytes"
	"fmt"
	"sort"
	"strings"
	"time"

	"github.com/LiskHQ/lisk-engine/pkg/blockchain"
	"github.com/LiskHQ/lisk-engine/pkg/codec"
	"github.com/LiskHQ/lisk-engine/pkg/consensus"
	"github.com/LiskHQ/lisk-engine/pkg/consensus/certificate"
	"github.com/LiskHQ/lisk-engine/pkg/crypto"

	"verif/node"
	"verif/vlib"
)

type caseT struct {
	Cert    uint64 `json:"certThreshold"`
	Height  uint32 `json:"height"`
	Signers []int  `json:"signers"`
	Tamper  string `json:"tamper"`
	Part    string `json:"part"`
}

type fixture struct {
	n        *node.Node
	mhp      uint32 // maxHeightPrecommitted
	mhc      uint32
	changeH  uint32 // first height with the new parameters
	changeH2 uint32 // first height with the second set of new parameters
	tip      uint32
}

// build a chain with 4 weighted validators, a validator-set change (a 5th validator joins) at height 4,
// long enough that several heights above maxHeightCertified are precommitted.
func build(cert uint64, blocks int, withChange bool) *fixture {
	// validators 0,1,5,6 (weights 1,2,3,4), later joined by 4: for these fixed keys the order by address (the
	// order the BFT parameters are stored in) differs from the order by BLS key (the order of the aggregation
	// bits), so that weights and keys can be told apart
	cfg := node.DefaultConfig(4)
	cfg.Set = node.ValSet{Weights: []uint64{1, 2, 0, 0, 0, 3, 4}, Listed: []int{0, 1, 5, 6}, Precommit: 7, Cert: cert}
	cfg.BatchSize = 5
	cfg.MaxBlockCache = 50
	cfg.ValChangeMenu = []node.ValSet{
		{Weights: []uint64{1, 2, 0, 0, 1, 3, 4}, Listed: []int{0, 1, 5, 6, 4}, Precommit: 8, Cert: cert + 1},
		// a second, later change (precommit threshold only): two parameter changes can be pending at once
		{Weights: []uint64{1, 2, 0, 0, 1, 3, 4}, Listed: []int{0, 1, 5, 6, 4}, Precommit: 9, Cert: cert + 1},
	}
	n, err := node.New(cfg)
	if err != nil {
		panic(err)
	}
	for i := 1; i <= blocks; i++ {
		sh := node.Shape{}
		if i == 4 && withChange {
			sh.Txs = []node.TxSpec{{Sender: 0, Nonce: 1, Fee: 1, Script: []byte{9, 0}}}
		}
		if i == 8 && withChange {
			sh.Txs = []node.TxSpec{{Sender: 0, Nonce: 2, Fee: 1, Script: []byte{9, 1}}}
		}
		if _, err := n.Apply(sh); err != nil {
			panic(fmt.Sprintf("block %d: %v", i, err))
		}
	}
	f := &fixture{n: n, changeH: 5, changeH2: 9, tip: uint32(blocks)}
	if !withChange {
		f.changeH, f.changeH2 = 1<<30, 1<<30
	}
	_, f.mhp, f.mhc = n.BFTHeights()
	return f
}

// activeAt returns validator indexes and weights active at height h, and the certificate threshold there.
func (f *fixture) activeAt(h uint32) ([]int, []uint64, uint64) {
	if h >= f.changeH2 {
		vs := f.n.Cfg.ValChangeMenu[1]
		return vs.Listed, vs.Weights, vs.Cert
	}
	if h >= f.changeH {
		vs := f.n.Cfg.ValChangeMenu[0]
		return vs.Listed, vs.Weights, vs.Cert
	}
	return f.n.Cfg.Set.Listed, f.n.Cfg.Set.Weights, f.n.Cfg.Set.Cert
}

// refAggregate builds the aggregate commit of the given signers for height h the way LIP-0061 states it:
// keys of the validators active at h sorted by BLS key, bit i set iff validator i signed.
func (f *fixture) refAggregate(h uint32, signers []int, chainID []byte, headerAt uint32) *blockchain.AggregateCommit {
	act, _, _ := f.activeAt(h)
	keys := [][]byte{}
	for _, i := range act {
		keys = append(keys, node.KeysOf(i).BLSPub)
	}
	sort.Slice(keys, func(i, j int) bool { return bytes.Compare(keys[i], keys[j]) < 0 })
	hd, err := f.n.Chain.DataAccess().GetBlockHeaderByHeight(headerAt)
	if err != nil {
		return nil
	}
	pairs := []*crypto.BLSPublicKeySignaturePair{}
	for _, s := range signers {
		k := node.KeysOf(s)
		sc := certificate.NewSingleCommit(hd, k.Address, chainID, k.BLSPriv)
		pairs = append(pairs, &crypto.BLSPublicKeySignaturePair{PublicKey: k.BLSPub, Signature: sc.CertificateSignature()})
	}
	bits, sig := crypto.BLSCreateAggSig(keys, pairs)
	return &blockchain.AggregateCommit{Height: h, AggregationBits: bits, CertificateSignature: sig}
}

func subsets(xs []int) [][]int {
	out := [][]int{}
	for m := 1; m < 1<<uint(len(xs)); m++ {
		s := []int{}
		for i, x := range xs {
			if m>>uint(i)&1 == 1 {
				s = append(s, x)
			}
		}
		out = append(out, s)
	}
	return out
}

func weightOf(signers []int, act []int, w []uint64) uint64 {
	var t uint64
	for _, s := range signers {
		for _, a := range act {
			if a == s && s < len(w) {
				t += w[s]
			}
		}
	}
	return t
}

// lip61 is the acceptance predicate for an untampered aggregate of `signers` at height h.
func (f *fixture) lip61(h uint32, signers []int) (bool, string) {
	if h <= f.mhc {
		return false, "height-not-above-certified"
	}
	if h > f.mhp {
		return false, "height-above-precommitted"
	}
	// the block preceding the next validator-set change above maxHeightCertified+1 must be certified first
	for _, ch := range []uint32{f.changeH, f.changeH2} { // ascending: the first change above maxHeightCertified+1 bounds the height
		if ch > f.mhc+1 {
			if h > ch-1 {
				return false, "beyond-next-parameter-change"
			}
			break
		}
	}
	act, w, thr := f.activeAt(h)
	for _, s := range signers {
		in := false
		for _, a := range act {
			if a == s {
				in = true
			}
		}
		if !in {
			return false, "signer-not-active"
		}
	}
	if weightOf(signers, act, w) < thr {
		return false, "weight-below-threshold"
	}
	return true, ""
}

func main() {
	r := vlib.Start("C06", "exploration", 4*time.Minute, 20*time.Minute)
	r.Assume("LIP-0061 acceptance predicate: empty commit iff height = maxHeightCertified; otherwise maxHeightCertified < h <= maxHeightPrecommitted, h not beyond the block preceding the next validator-set change above maxHeightCertified+1, signers active at h with weight >= the certificate threshold of h, signature = BLS aggregate of exactly those signers (keys ordered by BLS key) over the certificate of the node's own block h for this chain ID")
	r.Assume("the chain is shorter than 100 blocks (the 'first 100 heights' case is the only one exercised)")
	var evals, nontrivial int64
	certs := []uint64{4, 7, 10}
	reported := map[string]bool{}
	viol := func(key, what string, c caseT) {
		if !reported[key] {
			reported[key] = true
			r.Violation(key, what, c)
		} else {
			r.Add("further_"+key, 1)
		}
	}
	type variant struct {
		cert   uint64
		change bool
	}
	variants := []variant{}
	for _, c := range certs {
		variants = append(variants, variant{c, true}, variant{c, false})
	}
	for _, vr := range variants {
		cert := vr.cert
		f := build(cert, 22, vr.change)
		chainID := f.n.Cfg.ChainID
		r.Sample(map[string]interface{}{"certThreshold": cert, "tip": f.tip, "maxHeightPrecommitted": f.mhp, "maxHeightCertified": f.mhc, "validatorChangeActiveFrom": f.changeH})
		if vr.change && f.mhp < f.changeH+1 {
			r.Violation("harness-chain-too-short", fmt.Sprintf("fixture: precommitted %d not beyond the parameter change %d", f.mhp, f.changeH), caseT{Cert: cert})
			continue
		}
		// ---- (a) verifyAggregateCommit ----
		empty := func(h uint32) *blockchain.AggregateCommit {
			return &blockchain.AggregateCommit{Height: h, AggregationBits: []byte{}, CertificateSignature: []byte{}}
		}
		for h := uint32(0); h <= f.mhp+1; h++ {
			evals++
			err := f.n.Exec.VerifVerifyAggregateCommit(empty(h))
			if (err == nil) != (h == f.mhc) {
				viol("empty-commit-height", fmt.Sprintf("empty aggregate commit with height %d (maxHeightCertified %d): err=%v", h, f.mhc, err), caseT{cert, h, nil, "empty", "a"})
			}
		}
		heights := []uint32{}
		for h := uint32(1); h <= f.mhp+1 && h <= f.tip; h++ {
			heights = append(heights, h)
		}
		for _, h := range heights {
			act, _, _ := f.activeAt(h)
			for _, s := range subsets(act) {
				if r.Expired() {
					r.Cap("deadline in part a")
					break
				}
				want, why := f.lip61(h, s)
				agg := f.refAggregate(h, s, chainID, h)
				c := caseT{cert, h, s, "none", "a"}
				evals++
				var err error
				if p := vlib.Catch(func() { err = f.n.Exec.VerifVerifyAggregateCommit(agg) }); p != "" {
					viol("verify-panics", fmt.Sprintf("verifyAggregateCommit panics for height %d signers %v: %s", h, s, p), c)
					continue
				}
				if want {
					nontrivial++
				} else {
					r.AddMap("rejected_by_rule", why, 1)
				}
				if (err == nil) != want {
					if err == nil {
						viol("accepted-invalid:"+why, fmt.Sprintf("aggregate commit violating '%s' accepted: height %d signers %v (mhc %d, mhp %d, change at %d, threshold %d)", why, h, s, f.mhc, f.mhp, f.changeH, cert), c)
					} else {
						viol("rejected-valid", fmt.Sprintf("valid aggregate commit rejected (%v): height %d signers %v", err, h, s), c)
					}
					continue
				}
				if !want {
					continue
				}
				// tamperings of an acceptable aggregate: every one must be rejected
				tamper := func(name string, a *blockchain.AggregateCommit) {
					evals++
					c.Tamper = name
					var err error
					if p := vlib.Catch(func() { err = f.n.Exec.VerifVerifyAggregateCommit(a) }); p != "" {
						r.Add("tampered_commits_panicking", 1) // crash-freedom is judged in C09
						return
					}
					r.Add("tampered_commits", 1)
					if err == nil {
						viol("tampered-accepted:"+name, fmt.Sprintf("tampered aggregate commit accepted (%s): height %d signers %v", name, h, s), c)
					}
				}
				nbits := len(act)
				for b := 0; b < nbits; b++ {
					t := *agg
					t.AggregationBits = append(codec.Hex{}, agg.AggregationBits...)
					t.AggregationBits[b/8] ^= 1 << uint(b%8)
					if bytes.Equal(bytes.TrimRight(t.AggregationBits, "\x00"), []byte{}) {
						continue
					}
					tamper(fmt.Sprintf("bit%d-flipped", b), &t)
				}
				{
					// a bitmap padded with an extra byte names the same signers: the property does not forbid it
					// (LIP-0038 reads only the first len(keys) bits); counted, not asserted
					t := *agg
					t.AggregationBits = append(append(codec.Hex{}, agg.AggregationBits...), 1)
					if vlib.Catch(func() {
						if f.n.Exec.VerifVerifyAggregateCommit(&t) == nil {
							r.Add("padded_bitmaps_accepted_informational", 1)
						}
					}) != "" {
						r.Add("tampered_commits_panicking", 1)
					}
				}
				if h > 1 {
					t := f.refAggregate(h, s, chainID, h-1)
					tamper("signature-over-other-height", t)
				}
				{
					t := f.refAggregate(h, s, []byte{9, 9, 9, 9}, h)
					tamper("signature-for-other-chain", t)
				}
				if len(s) > 1 {
					// signature by one signer fewer than the bitmap claims
					t := f.refAggregate(h, s[1:], chainID, h)
					t.AggregationBits = agg.AggregationBits
					tamper("missing-signer-in-signature", t)
				}
				if len(s) < len(act) {
					extra := append([]int{}, s...)
					for _, a := range act {
						in := false
						for _, x := range s {
							if x == a {
								in = true
							}
						}
						if !in {
							extra = append(extra, a)
							break
						}
					}
					t := f.refAggregate(h, extra, chainID, h)
					t.AggregationBits = agg.AggregationBits
					tamper("extra-signer-in-signature", t)
				}
				{
					t := *agg
					t.Height = h + 1
					tamper("height+1-same-signature", &t)
				}
			}
		}
		// ---- (b) pool -> GetAggregateCommit -> verifyAggregateCommit -> block ----
		pool := f.n.Exec.VerifPool()
		for _, h := range heights {
			act, _, _ := f.activeAt(h)
			for _, s := range subsets(act) {
				pool.Cleanup(func(uint32) bool { return false })
				hd, _ := f.n.Chain.DataAccess().GetBlockHeaderByHeight(h)
				for _, v := range s {
					k := node.KeysOf(v)
					pool.Add(certificate.NewSingleCommit(hd, k.Address, chainID, k.BLSPriv))
				}
				evals++
				c := caseT{cert, h, s, "", "b"}
				var agg *blockchain.AggregateCommit
				var err error
				if p := vlib.Catch(func() { agg, err = f.n.Exec.GetAggregateCommit() }); p != "" || err != nil {
					viol("get-aggregate-fails", fmt.Sprintf("GetAggregateCommit fails with pool = signers %v at height %d: %v %s", s, h, err, p), c)
					continue
				}
				if err := f.n.Exec.VerifVerifyAggregateCommit(agg); err != nil {
					viol("own-aggregate-rejected", fmt.Sprintf("the node's own aggregate commit (height %d, pool = signers %v at height %d, bits %x) is rejected by its own verification: %v", agg.Height, s, h, []byte(agg.AggregationBits), err), c)
					continue
				}
				if !agg.Empty() {
					nontrivial++
					r.Add("own_nonempty_aggregates_verified", 1)
					if ok, _ := f.lip61(agg.Height, s); !ok {
						viol("own-aggregate-not-certifiable", fmt.Sprintf("GetAggregateCommit produced a commit for height %d from signers %v that LIP-0061 does not allow", agg.Height, s), c)
					}
				}
			}
		}
		// a block carrying the node's aggregate is accepted
		if vr.change {
			pool.Cleanup(func(uint32) bool { return false })
			h := f.changeH - 1
			hd, _ := f.n.Chain.DataAccess().GetBlockHeaderByHeight(h)
			for _, v := range []int{1, 5, 6} {
				k := node.KeysOf(v)
				pool.Add(certificate.NewSingleCommit(hd, k.Address, chainID, k.BLSPriv))
			}
			evals++
			if _, err := f.n.Apply(node.Shape{WithAgg: true}); err != nil {
				viol("block-with-own-aggregate-rejected", fmt.Sprintf("block carrying the node's own aggregate commit rejected: %v", err), caseT{cert, h, []int{1, 5, 6}, "", "b-block"})
			} else {
				_, _, mhc := f.n.BFTHeights()
				if mhc != h && cert <= 9 {
					viol("certified-height-not-advanced", fmt.Sprintf("after the block with the aggregate commit maxHeightCertified=%d, expected %d", mhc, h), caseT{cert, h, nil, "", "b-block"})
				}
				_ = f.n.Exec.VerifDeleteBlock(f.n.Tip(), false)
			}
		}
		// ---- (d) the node's own certification step: Executer.Certify as the generator calls it after finalization ----
		{
			_, pc, mhc := f.n.BFTHeights()
			everyone := []int{0, 1, 4, 5, 6}
			for from := mhc; from < pc; from++ {
				for to := from + 1; to <= pc; to++ {
					pool.Cleanup(func(uint32) bool { return false })
					c := caseT{cert, to, nil, fmt.Sprintf("certify(%d,%d]", from, to), "d"}
					failed := false
					for _, v := range everyone {
						k := node.KeysOf(v)
						if err := f.n.Exec.Certify(from, to, k.Address, k.BLSPriv); err != nil {
							viol("certify-fails", fmt.Sprintf("Certify(%d,%d) for validator %d: %v", from, to, v, err), c)
							failed = true
						}
					}
					evals++
					if failed {
						continue
					}
					// LIP-0061: a single commit for every height in (from,to] whose successor starts new BFT parameters
					// (the block authenticates a validator-set change), and for `to` itself; one per active validator
					for h := uint32(1); h <= pc; h++ {
						want := h > from && h <= to && (h == to || h+1 == f.changeH || h+1 == f.changeH2)
						per := map[string]int{}
						for _, sc := range pool.Get(h) {
							per[string(sc.ValidatorAddress())]++
						}
						for a, n := range per {
							if n > 1 {
								viol("certify-duplicate-single-commit", fmt.Sprintf("Certify(%d,%d] put %d single commits of validator %x for height %d into the pool", from, to, n, a[:4], h), c)
							}
						}
						act, _, _ := f.activeAt(h)
						switch {
						case want && len(per) != len(act):
							viol("certify-misses-height", fmt.Sprintf("Certify(%d,%d]: %d of %d active validators have a single commit for height %d (next parameter change at %d)", from, to, len(per), len(act), h, f.changeH), c)
						case !want && len(per) != 0:
							viol("certify-extra-height", fmt.Sprintf("Certify(%d,%d] created single commits for height %d (next parameter change at %d)", from, to, h, f.changeH), c)
						}
					}
					var agg *blockchain.AggregateCommit
					var err error
					if p := vlib.Catch(func() { agg, err = f.n.Exec.GetAggregateCommit() }); p != "" || err != nil {
						viol("get-aggregate-fails-after-certify", fmt.Sprintf("GetAggregateCommit after Certify(%d,%d]: %v %s", from, to, err, p), c)
						continue
					}
					if err := f.n.Exec.VerifVerifyAggregateCommit(agg); err != nil {
						viol("own-aggregate-rejected-after-certify", fmt.Sprintf("after Certify(%d,%d] by every validator the node's own aggregate commit (height %d) is rejected by its own verification: %v", from, to, agg.Height, err), c)
						continue
					}
					if !agg.Empty() {
						r.Add("own_aggregates_after_certify_verified", 1)
					}
				}
			}
		}
		// ---- (e) pool histories: deliveries through the gossip validator interleaved with the periodic gossip step ----
		{
			_, pc, _ := f.n.BFTHeights()
			const hE = uint32(1)
			hdE, _ := f.n.Chain.DataAccess().GetBlockHeaderByHeight(hE)
			actE, _, _ := f.activeAt(hE)
			msgOf := func(v int) []byte {
				k := node.KeysOf(v)
				sc := certificate.NewSingleCommit(hdE, k.Address, chainID, k.BLSPriv)
				inner := append(append(append(fb(1, hdE.ID), fu(2, uint64(hE))...), fb(3, k.Address)...), fb(4, []byte(sc.CertificateSignature()))...)
				return fb(1, inner)
			}
			type opT struct {
				name string
				run  func()
			}
			ops := []opT{}
			for _, v := range actE {
				v := v
				ops = append(ops, opT{fmt.Sprintf("deliver(v%d)", v), func() { f.n.Exec.VerifSingleCommitValidator(msgOf(v)) }})
			}
			// the node's own certification of the same height (its validator's commit may already have arrived by gossip)
			for _, v := range actE[:2] {
				v := v
				ops = append(ops, opT{fmt.Sprintf("certify(v%d)", v), func() {
					k := node.KeysOf(v)
					_ = f.n.Exec.Certify(hE-1, hE, k.Address, k.BLSPriv)
				}})
			}
			ops = append(ops, opT{"gossip-step(select+upgrade)", func() { pool.Upgrade(pool.Select(pc, len(actE))) }})
			depth := 4
			var seq []int
			var walk func()
			walk = func() {
				if len(seq) > 0 {
					pool.Cleanup(func(uint32) bool { return false })
					names := []string{}
					for _, o := range seq {
						ops[o].run()
						names = append(names, ops[o].name)
					}
					evals++
					c := caseT{cert, hE, nil, strings.Join(names, " "), "e"}
					per := map[string]int{}
					for _, sc := range pool.Get(hE) {
						per[string(sc.ValidatorAddress())]++
					}
					dup := false
					for a, n := range per {
						if n > 1 {
							dup = true
							viol("pool-holds-duplicate-single-commit", fmt.Sprintf("after [%s] the pool returns %d single commits of validator %x for height %d", c.Tamper, n, a[:4], hE), c)
						}
					}
					agg, err := f.n.Exec.GetAggregateCommit()
					if err != nil {
						viol("get-aggregate-fails-in-history", fmt.Sprintf("after [%s]: %v", c.Tamper, err), c)
					} else if err := f.n.Exec.VerifVerifyAggregateCommit(agg); err != nil && !dup {
						viol("own-aggregate-rejected-in-history", fmt.Sprintf("after [%s] the node's own aggregate commit is rejected: %v", c.Tamper, err), c)
					} else if err == nil && !agg.Empty() {
						signers := []int{}
						for _, v := range actE {
							if per[string(node.KeysOf(v).Address)] > 0 {
								signers = append(signers, v)
							}
						}
						if ok, _ := f.lip61(agg.Height, signers); !ok {
							viol("own-aggregate-not-certifiable-in-history", fmt.Sprintf("after [%s] GetAggregateCommit certified height %d with signers %v, which LIP-0061 does not allow", c.Tamper, agg.Height, signers), c)
						}
						r.Add("own_aggregates_in_histories_verified", 1)
					}
				}
				if len(seq) == depth {
					return
				}
				for o := range ops {
					seq = append(seq, o)
					walk()
					seq = seq[:len(seq)-1]
				}
			}
			walk()
		}
		// ---- (c) pool admission through the gossip validator ----
		pool.Cleanup(func(uint32) bool { return false })
		type who struct {
			name string
			idx  int
		}
		for _, h := range heights {
			for _, w := range []who{{"active", 1}, {"joins-later", 4}, {"never-a-validator", 9}} {
				for _, wrongID := range []bool{false, true} {
					for _, sigKind := range []string{"own", "garbage", "other-validator", "other-height"} {
						hd, _ := f.n.Chain.DataAccess().GetBlockHeaderByHeight(h)
						k := node.KeysOf(w.idx)
						signer := k
						if sigKind == "other-validator" {
							signer = node.KeysOf(5)
						}
						signHd := hd
						if sigKind == "other-height" && h <= 1 {
							continue
						}
						if sigKind == "other-height" && h > 1 {
							signHd, _ = f.n.Chain.DataAccess().GetBlockHeaderByHeight(h - 1)
						}
						sc := certificate.NewSingleCommit(signHd, k.Address, chainID, signer.BLSPriv)
						sig := []byte(sc.CertificateSignature())
						if sigKind == "garbage" {
							sig = bytes.Repeat([]byte{0xc0}, 96)
						}
						id := hd.ID
						if wrongID {
							id = crypto.Hash([]byte("other block"))
						}
						// EventPostSingleCommits{1: [ {1: blockID, 2: height, 3: address, 4: signature} ]}
						inner := append(append(append(fb(1, id), fu(2, uint64(h))...), fb(3, k.Address)...), fb(4, sig)...)
						msg := fb(1, inner)
						evals++
						before := pool.Size()
						var res interface{}
						if p := vlib.Catch(func() { res = f.n.Exec.VerifSingleCommitValidator(msg) }); p != "" {
							r.Add("admission_panics", 1)
							continue
						}
						_ = res
						admitted := pool.Size() > before
						act, _, _ := f.activeAt(h)
						isActive := false
						for _, a := range act {
							if a == w.idx {
								isActive = true
							}
						}
						sound := isActive && !wrongID && sigKind == "own"
						c := caseT{cert, h, []int{w.idx}, fmt.Sprintf("%s/wrongID=%v/sig=%s", w.name, wrongID, sigKind), "c"}
						if admitted {
							r.Add("single_commits_admitted", 1)
							nontrivial++
							if !sound {
								viol("unsound-single-commit-admitted:"+sigKind, fmt.Sprintf("single commit admitted to the pool although it is not a verifying commit of an active validator for the chain's block: height %d %s", h, c.Tamper), c)
							}
						} else if sound {
							r.AddMap("sound_single_commits_not_admitted_at_height", fmt.Sprint(h), 1)
						}
						pool.Cleanup(func(uint32) bool { return false })
					}
				}
			}
		}
		f.n.Close()
	}
	_ = consensus.P2PEventPostSingleCommits
	// ---- certificate pool as a state machine: every operation sequence over old and recent commits --------------------
	{
		pe, pn, psel := poolHistories(r, viol)
		evals += pe
		nontrivial += pn
		r.Set("pool_histories", pe)
		r.Set("pool_selections_checked", psel)
	}
	r.Set("evaluations", evals)
	r.Set("distinct_nontrivial", nontrivial)
	r.Set("rule", "per certificate threshold: every height 0..mhp+1 with the empty commit; every non-empty signer subset of the validators active at every height 1..mhp+1 (a 5th validator joins at height 5) through verifyAggregateCommit against the LIP-0061 predicate, and for every accepted one every single-bit flip, longer bitmap, signature over another height/chain, missing/extra signer, shifted height; every subset as pool content -> GetAggregateCommit -> verification; every single-commit message of {active, joins later, never validator} x {right,wrong block ID} x {own, garbage, other validator's, other height's signature} x height through the gossip validator. non-trivial = accepted aggregates, non-empty own aggregates, admitted single commits")
	r.Finish()
}

// poolHistories drives the real certificate.Pool with every sequence of <=depth operations over
//   add(c) for six commits (heights 10, 20, 160 x two validators; as the callers do, only when !Has(c)),
//   select(maxHeightPrecommitted in {50,150,300}, limit in {2,10}) - the selection is kept by the caller,
//   upgrade(last selection)
// so that commits are old (more than 100 below the precommitted height: re-selected although gossiped) and recent.
// After every operation: the pool holds every added commit exactly once (by block ID and validator), a selection
// contains pool members only and at most limit of them, and every selection handed out earlier is unchanged.
func poolHistories(r *vlib.Run, viol func(key, what string, c caseT)) (int64, int64, int64) {
	chainID := []byte{9, 9, 9, 9}
	commits := []*certificate.SingleCommit{}
	for _, h := range []uint32{10, 20, 160} {
		for v := 0; v < 2; v++ {
			id := crypto.Hash([]byte{byte(h), 77})
			hd := &blockchain.BlockHeader{Version: 2, Height: h, ID: id, StateRoot: crypto.Hash([]byte{1}), ValidatorsHash: crypto.Hash([]byte{2}), AggregateCommit: &blockchain.AggregateCommit{}}
			k := node.KeysOf(v)
			commits = append(commits, certificate.NewSingleCommit(hd, k.Address, chainID, k.BLSPriv))
		}
	}
	name := func(c *certificate.SingleCommit) string {
		return fmt.Sprintf("h%d/%x", c.Height(), []byte(c.ValidatorAddress())[:2])
	}
	type op struct {
		kind  string
		i     int
		mhp   uint32
		limit int
	}
	ops := []op{}
	for i := range commits {
		ops = append(ops, op{kind: "add", i: i})
	}
	for _, mhp := range []uint32{50, 150, 300} {
		for _, lim := range []int{2, 10} {
			ops = append(ops, op{kind: "select", mhp: mhp, limit: lim})
		}
	}
	ops = append(ops, op{kind: "upgrade"})
	depth := 6
	if r.Thorough() {
		depth = 7
	}
	hasSelect := func(seq []int) bool {
		for _, x := range seq {
			if ops[x].kind == "select" {
				return true
			}
		}
		return false
	}
	var histories, nontrivial, sels int64
	var rec func(seq []int)
	run := func(seq []int) {
		pool := certificate.NewPool()
		added := map[int]bool{}
		type held struct {
			sel  certificate.SingleCommits
			want []string
		}
		helds := []held{}
		desc := []string{}
		var last certificate.SingleCommits
		for _, oi := range seq {
			o := ops[oi]
			switch o.kind {
			case "add":
				desc = append(desc, "add("+name(commits[o.i])+")")
				if !pool.Has(commits[o.i]) {
					pool.Add(commits[o.i])
					added[o.i] = true
				}
			case "select":
				desc = append(desc, fmt.Sprintf("select(mhp=%d,limit=%d)", o.mhp, o.limit))
				sel := pool.Select(o.mhp, o.limit)
				sels++
				want := []string{}
				for _, c := range sel {
					want = append(want, name(c))
					if !pool.Has(c) {
						viol("pool-selection-not-in-pool", fmt.Sprintf("after %v the selection contains %s, which the pool does not hold", desc, name(c)), caseT{Part: "pool-history", Tamper: fmt.Sprint(desc)})
					}
				}
				if len(sel) > o.limit {
					viol("pool-selection-above-limit", fmt.Sprintf("after %v the selection has %d commits", desc, len(sel)), caseT{Part: "pool-history", Tamper: fmt.Sprint(desc)})
				}
				helds = append(helds, held{sel, want})
				last = sel
				if len(sel) > 0 {
					nontrivial++
				}
			case "upgrade":
				desc = append(desc, "upgrade(last selection)")
				if last != nil {
					pool.Upgrade(last)
				}
			}
			// every added commit exactly once
			total := 0
			for _, h := range []uint32{10, 20, 160} {
				seen := map[string]int{}
				for _, c := range pool.Get(h) {
					seen[name(c)]++
					total++
				}
				for n, k := range seen {
					if k > 1 {
						viol("pool-holds-duplicate-single-commit", fmt.Sprintf("after %v the pool holds %s %d times", desc, n, k), caseT{Part: "pool-history", Tamper: fmt.Sprint(desc)})
					}
				}
			}
			if total != len(added) || pool.Size() != len(added) {
				viol("pool-content-differs-from-added", fmt.Sprintf("after %v the pool holds %d commits (Size %d), %d distinct ones were added", desc, total, pool.Size(), len(added)), caseT{Part: "pool-history", Tamper: fmt.Sprint(desc)})
			}
			for _, hl := range helds {
				got := []string{}
				for _, c := range hl.sel {
					got = append(got, name(c))
				}
				if fmt.Sprint(got) != fmt.Sprint(hl.want) {
					viol("pool-selection-changed-after-return", fmt.Sprintf("after %v a selection handed out earlier as %v now reads %v", desc, hl.want, got), caseT{Part: "pool-history", Tamper: fmt.Sprint(desc)})
				}
			}
		}
		histories++
	}
	rec = func(seq []int) {
		if len(seq) > 0 {
			run(seq)
		}
		if len(seq) == depth || r.Expired() {
			return
		}
		for oi := range ops {
			// operations that cannot change anything are not extended: adding a commit the sequence added before (the callers
			// ask Has first), upgrading when nothing was selected since the last upgrade
			if ops[oi].kind == "add" {
				dup := false
				for _, x := range seq {
					if x == oi {
						dup = true
					}
				}
				if dup {
					continue
				}
			}
			if ops[oi].kind == "upgrade" && (len(seq) == 0 || ops[seq[len(seq)-1]].kind == "upgrade" || !hasSelect(seq)) {
				continue
			}
			rec(append(append([]int{}, seq...), oi))
		}
	}
	rec(nil)
	return histories, nontrivial, sels
}

func varint(x uint64) []byte {
	var b []byte
	for x >= 0x80 {
		b = append(b, byte(x)|0x80)
		x >>= 7
	}
	return append(b, byte(x))
}
func fb(n int, v []byte) []byte {
	return append(append(varint(uint64(n)<<3|2), varint(uint64(len(v)))...), v...)
}
func fu(n int, v uint64) []byte { return append(varint(uint64(n)<<3|0), varint(v)...) }
