package probe

import (
	"testing"

	"verif/node"
)

func TestGenesisHeight(t *testing.T) {
	cfg := node.MenuConfig()
	cfg.GenesisHeight = 100
	cfg.MaxBlockCache = 2
	n, err := node.New(cfg)
	t.Logf("New: %v", err)
	if err != nil {
		return
	}
	for i := 0; i < 4; i++ {
		if _, err := n.ApplyMenu(0, 0); err != nil {
			t.Fatalf("apply %d: %v", i, err)
		}
	}
	for i := 0; i < 4; i++ {
		tip := n.Tip()
		if tip == nil {
			t.Fatalf("tip nil after %d deletes", i)
		}
		err := n.Exec.VerifDeleteBlock(tip, false)
		t.Logf("delete %d: %v; tip now %v", tip.Header.Height, err, n.Tip() != nil)
	}
}
