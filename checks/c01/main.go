// C01 finality safety: exhaustive search over fork trees of block headers. Every block's BFT
// state is the real liskbft.Module.BeforeTransactionsExecute applied to a copy of its parent's
// store; the oracle is that all blocks any view reports as finalized lie on one chain.
package main

import (
	"fmt"
	"sort"
	"sync"
	"time"

	"verif/bftx"
	"verif/ref"
	"verif/vlib"
)

type config struct {
	Name         string
	Weights      []uint64 // initial validators by index
	Byz          []int    // Byzantine validator indexes
	Slots        int
	MaxLeaves    int
	MaxSkips     int
	ByzFull      bool // Byzantine mhg alphabet: full [0..h] instead of {0, honest, h-1, h}
	HonestAny    bool // honest mhg: any non-contradicting value instead of the largest signed height
	Double       bool // Byzantine may sign two headers in one slot
	PrecommitMax bool
	PrecommitMin bool // precommit threshold = the smallest one for which the protocol still promises safety against the Byzantine weight: W + f + 1 - T_prevote
	// one parameter change on the trunk, applied after the block at height ChangeAt (0 = none)
	ChangeAt uint32
	// forks may also start below the change; every branch then applies the same change at the same height
	ForkBelowChange bool
	AfterCertPlus   bool
	After           []uint64
	Batch           int
	// forks may only start from a block of height <= MaxForkHeight (-1: anywhere)
	MaxForkHeight int
}

type blk struct {
	parent  int
	height  uint32
	gen     int
	mhg     uint32
	mhp     uint32
	slot    int
	st      *bftx.MapStore
	pre     uint32
	pv      uint32
	kids    int
	prevFin int
}

type choice struct {
	Slot   int    `json:"slot"`
	Skip   bool   `json:"skip,omitempty"`
	Parent int    `json:"parent"`
	Gen    int    `json:"gen"`
	MHG    uint32 `json:"mhg"`
	Again  bool   `json:"again,omitempty"` // same slot continues (double forging)
}

type search struct {
	cfg     config
	env     *bftx.Env
	blocks  []blk
	signed  [][]ref.CHeader
	leaves  int
	skips   int
	maxFin  int // block index of the highest finalized block seen
	path    []choice
	trans   int64
	leavesC int64 // complete executions
	byz     map[int]bool
	stop    func() bool
	report  func(key, what string, path []choice, tree string)
	forked  int64
	finAdv  int64
	maxPre  uint32
}

func total(w []uint64) uint64 {
	var t uint64
	for _, x := range w {
		t += x
	}
	return t
}

// pcMinFor is the smallest precommit threshold with T_prevote + T_precommit - W > f (and inside the accepted range).
func pcMinFor(w []uint64, byz []int) uint64 {
	W := total(w)
	var f uint64
	for _, b := range byz {
		if b < len(w) {
			f += w[b]
		}
	}
	pc := W + f + 1 - (2*W/3 + 1)
	if pc < W/3+1 {
		pc = W/3 + 1
	}
	return pc
}

func specOf(w []uint64, pcMax bool, pcMin ...uint64) (uint64, uint64, []bftx.ValidatorSpec) {
	W := total(w)
	vs := []bftx.ValidatorSpec{}
	for i, x := range w {
		if x > 0 {
			vs = append(vs, bftx.ValidatorSpec{Idx: i, Weight: x})
		}
	}
	pc := 2*W/3 + 1
	if pcMax {
		pc = W
	}
	if len(pcMin) > 0 && pcMin[0] > 0 {
		pc = pcMin[0]
	}
	return pc, 2*W/3 + 1, vs
}

func members(w []uint64) []int {
	m := []int{}
	for i, x := range w {
		if x > 0 {
			m = append(m, i)
		}
	}
	return m
}

func (s *search) membersAt(height uint32) []int {
	if s.cfg.ChangeAt != 0 && height > s.cfg.ChangeAt {
		return members(s.cfg.After)
	}
	return members(s.cfg.Weights)
}

func (s *search) isAncestor(a, b int) bool { // a ancestor-or-equal of b
	for b >= 0 {
		if a == b {
			return true
		}
		if s.blocks[b].height <= s.blocks[a].height {
			return false
		}
		b = s.blocks[b].parent
	}
	return false
}

func (s *search) ancestorAt(b int, h uint32) int {
	for b >= 0 && s.blocks[b].height > h {
		b = s.blocks[b].parent
	}
	return b
}

func (s *search) tree() string {
	out := ""
	for i, b := range s.blocks {
		out += fmt.Sprintf("#%d<-#%d h%d g%d mhg%d mhp%d slot%d pre%d; ", i, b.parent, b.height, b.gen, b.mhg, b.mhp, b.slot, b.pre)
	}
	return out
}

// add creates the block, returns false if the real module rejects/errs or the chain-level filter rejects it.
func (s *search) add(parent, gen int, mhg uint32, slot int) (bool, bool) {
	p := &s.blocks[parent]
	mhp := p.pv
	h := &bftx.Hdr{H: p.height + 1, Gen: bftx.Addr(gen), MHG: mhg, MHP: mhp, Ver: 2}
	if s.env.Contradicting(p.st, h) {
		return false, false
	}
	st, err := s.env.Apply(p.st, h)
	if err != nil {
		return false, false
	}
	if s.cfg.ChangeAt != 0 && h.H == s.cfg.ChangeAt {
		pc, cert, vs := specOf(s.cfg.After, s.cfg.PrecommitMax, s.cfg.pcMin(s.cfg.After))
		if s.cfg.AfterCertPlus {
			cert++ // same validators and vote thresholds, only the certificate threshold moves: still a parameter update
		}
		st, err = s.env.SetParams(st, pc, cert, vs)
		if err != nil {
			panic(err)
		}
	}
	pv, pre, _ := s.env.Heights(st)
	s.trans++
	s.blocks = append(s.blocks, blk{parent: parent, height: h.H, gen: gen, mhg: mhg, mhp: mhp, slot: slot, st: st, pre: pre, pv: pv, prevFin: s.maxFin})
	idx := len(s.blocks) - 1
	p = &s.blocks[parent] // append may have moved the slice
	if p.kids > 0 {
		s.leaves++
		s.forked++
	}
	p.kids++
	s.signed[gen] = append(s.signed[gen], ref.CHeader{Gen: "v", Height: h.H, MHG: mhg, MHP: mhp})
	ok := true
	if pre < p.pre {
		s.report("precommitted-decreased", fmt.Sprintf("precommitted height decreased %d -> %d along a branch", p.pre, pre), s.path, s.tree())
		ok = false
	}
	if pre > s.maxPre {
		s.maxPre = pre
	}
	f := s.ancestorAt(idx, pre)
	if f != s.maxFin {
		if s.isAncestor(s.maxFin, f) {
			s.maxFin = f
			s.finAdv++
		} else if !s.isAncestor(f, s.maxFin) {
			s.report("conflicting-finalized", fmt.Sprintf("blocks #%d (height %d) and #%d (height %d) are both finalized but on different branches",
				f, s.blocks[f].height, s.maxFin, s.blocks[s.maxFin].height), s.path, s.tree())
			ok = false
		}
	}
	return true, ok
}

func (s *search) pop(gen int) {
	b := s.blocks[len(s.blocks)-1]
	s.blocks = s.blocks[:len(s.blocks)-1]
	s.maxFin = b.prevFin
	p := &s.blocks[b.parent]
	p.kids--
	if p.kids > 0 {
		s.leaves--
	}
	s.signed[gen] = s.signed[gen][:len(s.signed[gen])-1]
}

func (s *search) largestSigned(v int) uint32 {
	var m uint32
	for _, h := range s.signed[v] {
		if h.Height > m {
			m = h.Height
		}
	}
	return m
}

func (s *search) mhgOptions(v int, height uint32, mhp uint32) []uint32 {
	ls := s.largestSigned(v)
	if s.byz[v] {
		if s.cfg.ByzFull {
			out := []uint32{}
			for x := uint32(0); x <= height; x++ {
				out = append(out, x)
			}
			return out
		}
		set := map[uint32]bool{0: true, ls: true, height - 1: true, height: true}
		out := []uint32{}
		for x := range set {
			out = append(out, x)
		}
		sort.Slice(out, func(i, j int) bool { return out[i] < out[j] })
		return out
	}
	cands := []uint32{ls}
	if s.cfg.HonestAny {
		cands = cands[:0]
		for x := uint32(0); x <= height; x++ {
			cands = append(cands, x)
		}
	}
	out := []uint32{}
	for _, mhg := range cands {
		nh := ref.CHeader{Gen: "v", Height: height, MHG: mhg, MHP: mhp}
		bad := false
		for _, old := range s.signed[v] {
			if ref.ContradictingOrderFree(old, nh) || (old.Height == nh.Height && old.MHG == nh.MHG && old.MHP == nh.MHP) {
				// the second disjunct: an identical triple on another branch is a distinct header and contradicts
				bad = true
				break
			}
		}
		if !bad {
			out = append(out, mhg)
		}
	}
	return out
}

// options lists the (parent, gen, mhg) moves available in this slot.
func (s *search) options(slot int) []choice {
	out := []choice{}
	for pi := range s.blocks {
		p := &s.blocks[pi]
		if p.kids > 0 { // extending a non-leaf creates a new leaf
			if s.leaves >= s.cfg.MaxLeaves {
				continue
			}
			if s.cfg.MaxForkHeight >= 0 && int(p.height) > s.cfg.MaxForkHeight {
				continue
			}
			if s.cfg.ChangeAt != 0 && p.height < s.cfg.ChangeAt && !s.cfg.ForkBelowChange {
				continue // forks only above the parameter change: the trunk carries it
			}
		}
		mem := s.membersAt(p.height + 1)
		v := mem[slot%len(mem)]
		mhp := p.pv
		for _, mhg := range s.mhgOptions(v, p.height+1, mhp) {
			out = append(out, choice{Slot: slot, Parent: pi, Gen: v, MHG: mhg})
		}
	}
	return out
}

func (s *search) run(slot int, again bool) {
	if slot > s.cfg.Slots {
		s.leavesC++
		return
	}
	if s.stop != nil && s.stop() {
		return
	}
	opts := s.options(slot)
	for _, c := range opts {
		s.path = append(s.path, c)
		added, ok := s.add(c.Parent, c.Gen, c.MHG, slot)
		if added {
			if ok {
				s.run(slot+1, false)
				if s.cfg.Double && s.byz[c.Gen] && !again {
					s.path[len(s.path)-1].Again = true
					s.run(slot, true)
					s.path[len(s.path)-1].Again = false
				}
			}
			s.pop(c.Gen)
		}
		s.path = s.path[:len(s.path)-1]
	}
	if !again && s.skips < s.cfg.MaxSkips {
		s.skips++
		s.path = append(s.path, choice{Slot: slot, Skip: true})
		s.run(slot+1, false)
		s.path = s.path[:len(s.path)-1]
		s.skips--
	} else if !again && len(opts) == 0 {
		// nobody can move and no skip budget: the slot passes empty (not counted as a deviation)
		s.path = append(s.path, choice{Slot: slot, Skip: true})
		s.run(slot+1, false)
		s.path = s.path[:len(s.path)-1]
	}
}

func newSearch(cfg config) *search {
	batch := cfg.Batch
	if batch == 0 {
		batch = len(members(cfg.Weights))
		if a := len(members(cfg.After)); a > batch {
			batch = a
		}
	}
	env := bftx.NewEnv(batch)
	pc, cert, vs := specOf(cfg.Weights, cfg.PrecommitMax, cfg.pcMin(cfg.Weights))
	st, err := env.Genesis(0, pc, cert, vs)
	if err != nil {
		panic(err)
	}
	nv := len(cfg.Weights)
	if len(cfg.After) > nv {
		nv = len(cfg.After)
	}
	s := &search{cfg: cfg, env: env, byz: map[int]bool{}, signed: make([][]ref.CHeader, nv)}
	for _, b := range cfg.Byz {
		s.byz[b] = true
	}
	s.blocks = []blk{{parent: -1, height: 0, gen: -1, st: st}}
	s.leaves = 1
	return s
}

func (c config) pcMin(w []uint64) uint64 {
	if !c.PrecommitMin {
		return 0
	}
	return pcMinFor(w, c.Byz)
}

// safe reports whether the protocol itself promises safety for this configuration.
func safe(w []uint64, byz []int, pcMax bool, pcMin ...uint64) bool {
	W := total(w)
	var f uint64
	for _, b := range byz {
		if b < len(w) {
			f += w[b]
		}
	}
	pv := 2*W/3 + 1
	pc := pv
	if pcMax {
		pc = W
	}
	if len(pcMin) > 0 && pcMin[0] > 0 {
		pc = pcMin[0]
	}
	return 3*f < W && f+W < pv+pc
}

func configs(thorough bool) []config {
	cs := []config{}
	eq4 := []uint64{1, 1, 1, 1}
	eq5 := []uint64{1, 1, 1, 1, 1}
	for b := 0; b < 4; b++ {
		cs = append(cs, config{Name: fmt.Sprintf("n4-byz%d-14slots-reduced", b), Weights: eq4, Byz: []int{b}, Slots: 14, MaxLeaves: 2, MaxSkips: 1})
	}
	cs = append(cs,
		config{Name: "n4-f0-16slots", Weights: eq4, Byz: nil, Slots: 16, MaxLeaves: 2, MaxSkips: 1},
		config{Name: "n4-byz1-11slots-full", Weights: eq4, Byz: []int{1}, Slots: 11, MaxLeaves: 2, MaxSkips: 2, ByzFull: true},
		config{Name: "n3-f0-15slots", Weights: []uint64{1, 1, 1}, Byz: nil, Slots: 15, MaxLeaves: 2, MaxSkips: 1},
		config{Name: "w2111-byz2-14slots", Weights: []uint64{2, 1, 1, 1}, Byz: []int{2}, Slots: 14, MaxLeaves: 2, MaxSkips: 1},
		config{Name: "n4-byz0-10slots-3leaves", Weights: eq4, Byz: []int{0}, Slots: 10, MaxLeaves: 3, MaxSkips: 1},
		config{Name: "n4-byz2-8slots-honestany", Weights: eq4, Byz: []int{2}, Slots: 8, MaxLeaves: 2, MaxSkips: 0, HonestAny: true},
		config{Name: "n4-byz3-join5-15slots", Weights: eq4, Byz: []int{3}, Slots: 15, MaxLeaves: 2, MaxSkips: 1, ChangeAt: 2, After: eq5},
		config{Name: "n4-byz1-reweight-15slots", Weights: eq4, Byz: []int{1}, Slots: 15, MaxLeaves: 2, MaxSkips: 1, ChangeAt: 2, After: []uint64{2, 1, 1, 1}},
		config{Name: "n5-byz0-leave-15slots", Weights: eq5, Byz: []int{0}, Slots: 15, MaxLeaves: 2, MaxSkips: 0, ChangeAt: 2, After: []uint64{1, 1, 1, 1, 0}},
		// the same re-weighting on both sides of a fork that starts below it: votes for old-parameter blocks
		// cast by headers above the change (weights and thresholds must be those of the voted block's height)
		config{Name: "n4-byz3-reweight3334-forkbelow-12slots", Weights: eq4, Byz: []int{3}, Slots: 12, MaxLeaves: 2, MaxSkips: 1, ChangeAt: 2, After: []uint64{3, 3, 3, 4}, ForkBelowChange: true},
		config{Name: "w3334-byz1-reweight1111-forkbelow-12slots", Weights: []uint64{3, 3, 3, 4}, Byz: []int{1}, Slots: 12, MaxLeaves: 2, MaxSkips: 1, ChangeAt: 2, After: eq4, ForkBelowChange: true},
		config{Name: "n4-byz3-join5-forkbelow-12slots", Weights: eq4, Byz: []int{3}, Slots: 12, MaxLeaves: 2, MaxSkips: 1, ChangeAt: 2, After: eq5, ForkBelowChange: true},
		config{Name: "n4-byz3-reweight2111-forkbelow-13slots", Weights: eq4, Byz: []int{3}, Slots: 13, MaxLeaves: 2, MaxSkips: 1, ChangeAt: 3, After: []uint64{2, 1, 1, 1}, ForkBelowChange: true},
		config{Name: "n4-byz3-certonly-forkbelow-13slots", Weights: eq4, Byz: []int{3}, Slots: 13, MaxLeaves: 2, MaxSkips: 1, ChangeAt: 4, After: eq4, AfterCertPlus: true, ForkBelowChange: true},
		// aggregate weight 5 (2 mod 3) with the smallest precommit threshold that is still safe against one Byzantine validator
		// (prevote 4, precommit 3): a prevote threshold one unit too low finalizes on both sides of a 2/2 split
		config{Name: "n5-byz4-pcmin-double-13slots", Weights: eq5, Byz: []int{4}, Slots: 13, MaxLeaves: 2, MaxSkips: 0, PrecommitMin: true, Double: true},
		config{Name: "n4-byz0-reweight4333-forkbelow-12slots", Weights: eq4, Byz: []int{0}, Slots: 12, MaxLeaves: 2, MaxSkips: 1, ChangeAt: 1, After: []uint64{4, 3, 3, 3}, ForkBelowChange: true},
	)
	if thorough {
		for b := 0; b < 4; b++ {
			cs = append(cs, config{Name: fmt.Sprintf("n4-byz%d-16slots-reduced", b), Weights: eq4, Byz: []int{b}, Slots: 16, MaxLeaves: 2, MaxSkips: 1})
		}
		cs = append(cs,
			config{Name: "n4-byz1-13slots-full", Weights: eq4, Byz: []int{1}, Slots: 13, MaxLeaves: 2, MaxSkips: 2, ByzFull: true},
			config{Name: "n4-byz2-11slots-double", Weights: eq4, Byz: []int{2}, Slots: 11, MaxLeaves: 3, MaxSkips: 1, Double: true},
			config{Name: "n4-byz0-12slots-3leaves", Weights: eq4, Byz: []int{0}, Slots: 12, MaxLeaves: 3, MaxSkips: 1},
			config{Name: "n4-byz1-10slots-honestany", Weights: eq4, Byz: []int{1}, Slots: 10, MaxLeaves: 2, MaxSkips: 1, HonestAny: true},
			config{Name: "n5-byz4-17slots", Weights: eq5, Byz: []int{4}, Slots: 17, MaxLeaves: 2, MaxSkips: 0},
			config{Name: "n5-byz2-pcmin-double-16slots", Weights: eq5, Byz: []int{2}, Slots: 16, MaxLeaves: 2, MaxSkips: 0, PrecommitMin: true, Double: true},
			config{Name: "w22211-byz0-pcmin-double-14slots", Weights: []uint64{2, 2, 2, 1, 1}, Byz: []int{0}, Slots: 14, MaxLeaves: 2, MaxSkips: 0, PrecommitMin: true, Double: true},
			config{Name: "n4-byz0-pcmax-15slots", Weights: eq4, Byz: []int{0}, Slots: 15, MaxLeaves: 2, MaxSkips: 1, PrecommitMax: true},
			config{Name: "w3221-byz3-15slots", Weights: []uint64{3, 2, 2, 1}, Byz: []int{3}, Slots: 15, MaxLeaves: 2, MaxSkips: 1},
			config{Name: "n3-f0-12slots-honestany", Weights: []uint64{1, 1, 1}, Byz: nil, Slots: 12, MaxLeaves: 2, MaxSkips: 1, HonestAny: true},
			config{Name: "n4-f0-19slots", Weights: eq4, Byz: nil, Slots: 19, MaxLeaves: 2, MaxSkips: 2},
			config{Name: "n4-byz2-join5-17slots", Weights: eq4, Byz: []int{2}, Slots: 17, MaxLeaves: 2, MaxSkips: 1, ChangeAt: 3, After: eq5},
		)
	}
	for i := range cs {
		cs[i].MaxForkHeight = -1
	}
	return cs
}

const shardSlots = 5

type replayCase struct {
	Cfg  string   `json:"cfg"`
	Path []choice `json:"path"`
	Tree string   `json:"tree"`
}

func main() {
	r := vlib.Start("C01", "model_checking", 5*time.Minute, 40*time.Minute)
	r.Assume("only configurations in which Lisk-BFT itself promises safety are explored: Byzantine weight f < W/3 and f < T_prevote + T_precommit - W")
	r.Assume("honest validators sign only pairwise non-contradicting headers (reference LIP-0014 predicate) — this is the property's own premise; they need not follow fork choice")
	r.Assume("a header enters a branch only if the real IsHeaderContradictingChain on the parent's store does not reject it, with maxHeightPrevoted equal to the parent's value (as verifyBlock enforces)")
	r.Assume("validator-set changes are applied on the common trunk below the first fork")

	var viol sync.Mutex
	mkReport := func(cfgName string) func(key, what string, path []choice, tree string) {
		return func(key, what string, path []choice, tree string) {
			viol.Lock()
			defer viol.Unlock()
			r.Violation(key+":"+cfgName, what+" | tree: "+tree, replayCase{cfgName, append([]choice{}, path...), tree})
		}
	}

	if r.ReplayPath != "" {
		var rc replayCase
		if err := r.ReadReplay(&rc); err != nil {
			fmt.Println("cannot read replay:", err)
			r.Finish()
		}
		for _, c := range configs(true) {
			if c.Name != rc.Cfg {
				continue
			}
			s := newSearch(c)
			s.report = mkReport(c.Name)
			for _, ch := range rc.Path {
				if ch.Skip {
					continue
				}
				s.path = append(s.path, ch)
				added, ok := s.add(ch.Parent, ch.Gen, ch.MHG, ch.Slot)
				fmt.Printf("replay slot %d: parent #%d gen %d mhg %d -> added=%v ok=%v\n", ch.Slot, ch.Parent, ch.Gen, ch.MHG, added, ok)
			}
			fmt.Println("tree:", s.tree())
			break
		}
		r.Finish()
	}

	type shard struct {
		cfg  config
		path []choice
	}
	shards := []shard{}
	nConfigs := 0
	for _, c := range configs(r.Thorough()) {
		if r.Only != "" && r.Only != c.Name {
			continue
		}
		if !safe(c.Weights, c.Byz, c.PrecommitMax, c.pcMin(c.Weights)) || (c.ChangeAt != 0 && !safe(c.After, c.Byz, c.PrecommitMax, c.pcMin(c.After))) {
			panic("unsafe configuration listed: " + c.Name)
		}
		nConfigs++
		// expand the first 3 slots sequentially into shard prefixes
		s := newSearch(c)
		s.report = mkReport(c.Name)
		var expand func(slot int)
		expand = func(slot int) {
			if slot > shardSlots {
				shards = append(shards, shard{c, append([]choice{}, s.path...)})
				return
			}
			for _, o := range s.options(slot) {
				s.path = append(s.path, o)
				added, ok := s.add(o.Parent, o.Gen, o.MHG, slot)
				if added {
					if ok {
						expand(slot + 1)
					}
					s.pop(o.Gen)
				}
				s.path = s.path[:len(s.path)-1]
			}
			if s.skips < c.MaxSkips {
				s.skips++
				s.path = append(s.path, choice{Slot: slot, Skip: true})
				expand(slot + 1)
				s.path = s.path[:len(s.path)-1]
				s.skips--
			}
		}
		expand(1)
	}
	// largest configs first would be ideal; rotate by seed only
	if len(shards) > 0 {
		rot := int(r.Seed % int64(len(shards)))
		if rot < 0 {
			rot = -rot
		}
		shards = append(shards[rot:], shards[:rot]...)
	}
	r.RunSharded(len(shards), func(i int) {
		sh := shards[i]
		s := newSearch(sh.cfg)
		s.report = mkReport(sh.cfg.Name)
		s.stop = func() bool { return r.Expired() || r.NumViolationKeys() > 0 }
		slot := 1
		for _, ch := range sh.path {
			s.path = append(s.path, ch)
			if ch.Skip {
				s.skips++
			} else {
				s.add(ch.Parent, ch.Gen, ch.MHG, ch.Slot)
			}
			slot = ch.Slot + 1
		}
		s.trans = 0
		s.run(slot, false)
		r.Add("transitions", s.trans)
		r.Add("complete_fork_tree_histories", s.leavesC)
		r.Add("fork_creations", s.forked)
		r.Add("finality_advances_observed", s.finAdv)
		r.Add("max_precommitted_height_reached", 0)
		if int64(s.maxPre) > r.Get("max_precommitted_height_reached") {
			r.Set("max_precommitted_height_reached", int64(s.maxPre))
		}
		per, _ := r.Cov["transitions_per_config"].(map[string]interface{})
		if per == nil {
			per = map[string]interface{}{}
			r.Cov["transitions_per_config"] = per
		}
		cur, _ := per[sh.cfg.Name].(int64)
		per[sh.cfg.Name] = cur + s.trans
		if r.Expired() {
			r.Cap("internal deadline reached inside " + sh.cfg.Name)
		}
	})
	r.Set("states", r.Get("transitions")+1)
	r.Set("traces_validated_against_impl", r.Get("complete_fork_tree_histories"))
	r.Set("configs", nConfigs)
	r.Set("shards", len(shards))
	r.Set("explanation", "stateless DFS over fork trees; a transition = one real liskbft BeforeTransactionsExecute on a copy of the parent's store (states = tree nodes created, not deduplicated); oracle evaluated on every node: finalized blocks of all views lie on one chain, precommitted height monotone along branches")
	if len(shards) > 0 {
		r.Sample(map[string]interface{}{"cfg": shards[0].cfg.Name, "prefix": shards[0].path})
		r.Sample(map[string]interface{}{"cfg": shards[len(shards)-1].cfg.Name, "prefix": shards[len(shards)-1].path})
	}
	r.Finish()
}
