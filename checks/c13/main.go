// C13: block commit and removal are crash-atomic.
// Every file-system mutation boundary of a short history (apply / delete / temp blocks / validator change
// / finality advance with pruning) on the real node running pebble over a strict in-memory file system,
// x three policies for data written but not yet synced (lost, survived, last write torn); after each
// crash the database is reopened, the node restarted, and the recovered state must be the state after a
// whole number of operations and structurally consistent.
package main

import (
	"fmt"
	"os"
	"strconv"
	"strings"
	"time"

	"verif/crashfs"
	"verif/node"
	"verif/vlib"
)

type opT struct {
	Kind  string `json:"kind"` // apply delete delete-temp clear-temp restore-temp
	Shape int    `json:"shape,omitempty"`
}

var histories = [][]opT{
	{{"apply", 0}, {"apply", 2}, {"apply", 4}, {"apply", 0}, {"apply", 1}, {"delete", 0}, {"delete-temp", 0}, {"apply", 3}, {"clear-temp", 0}, {"apply", 0}},
	{{"apply", 1}, {"apply", 0}, {"apply", 0}, {"apply", 7}, {"delete-temp", 0}, {"apply", 2}, {"apply", 5}, {"delete", 0}},
	{{"apply", 2}, {"delete-temp", 0}, {"apply", 6}, {"apply", 0}, {"apply", 0}, {"apply", 0}, {"delete", 0}, {"apply", 4}},
	{{"apply", 1}, {"apply", 2}, {"apply", 0}, {"delete-temp", 0}, {"delete-temp", 0}, {"restore-temp", 0}, {"restore-temp", 0}, {"apply", 0}},
}

// largeHistory has block steps whose single write batch exceeds 4 MiB (shape 8: 400 transactions of 13 KiB), applied,
// then moved to the temp table. Its crash points are enumerated in coarse mode (crashfs): pebble's log writer
// splits such a write into Write calls in a timing-dependent way, so the calls themselves are not crash points;
// every other mutation is, and partially written data is covered by byte budgets for the last interval.
var largeHistory = []opT{{"apply", 1}, {"apply", 8}, {"apply", 0}, {"delete-temp", 0}, {"delete-temp", 0}}

// Systematic part: from each start state (the node after one of sysPrefixes) EVERY sequence of <= D operations over
// sysAlphabet is a history of its own, and every file-system mutation boundary of its last D operations is a crash
// point (the crash points of the prefix are those of a shorter history). Sequences in which the fault-free reference
// run refuses an operation (delete of the genesis or of a finalized block, ...) are counted and skipped.
var sysPrefixes = [][]opT{
	{},
	{{"apply", 0}, {"apply", 2}, {"apply", 4}, {"apply", 0}},
	{{"apply", 1}, {"apply", 0}, {"apply", 0}},
	{{"apply", 2}, {"delete-temp", 0}, {"apply", 6}, {"apply", 0}, {"apply", 0}},
}
var sysAlphabet = []opT{{"apply", 0}, {"apply", 1}, {"apply", 2}, {"apply", 3}, {"apply", 4}, {"apply", 5}, {"apply", 6}, {"apply", 7},
	{"delete", 0}, {"delete-temp", 0}, {"clear-temp", 0}, {"restore-temp", 0}}

type caseT struct {
	Ops     []opT  `json:"ops,omitempty"` // systematic part: the whole history (History = -1)
	History int    `json:"history"`
	CrashAt int    `json:"crash_at_mutation"`
	Policy  string `json:"policy"`
	Op      int    `json:"during_op"`
	Tail    int    `json:"tail_bytes,omitempty"`
}

func cfgFor(fs *crashfs.Session, recover bool, gts uint32, coarse bool) node.Config {
	cfg := node.MenuConfig()
	if coarse {
		cfg.MemTable = 64 << 20 // a 5 MiB batch stays an ordinary batch: no background flush
		cfg.MaxPayload = 6 << 20
	}
	cfg.KeepEvents = 1
	cfg.FS = fs
	cfg.RecoverApp = recover
	cfg.GenesisTimeFix = gts
	return cfg
}

func doOp(n *node.Node, o opT) error {
	switch o.Kind {
	case "apply":
		_, err := n.ApplyMenu(o.Shape, 0)
		return err
	case "delete":
		return n.Exec.VerifDeleteBlock(n.Tip(), false)
	case "delete-temp":
		return n.Exec.VerifDeleteBlock(n.Tip(), true)
	case "clear-temp":
		n.Chain.DataAccess().ClearTempBlocks()
	case "restore-temp":
		// what a failed fast sync does: the temp block that follows the tip is applied again and leaves the temp table in the same step
		tbs, err := n.Chain.DataAccess().GetTempBlocks()
		if err != nil {
			return err
		}
		tip := n.Tip()
		for _, b := range tbs {
			if b.Header.Height == tip.Header.Height+1 && string(b.Header.PreviousBlockID) == string(tip.Header.ID) {
				return n.Exec.VerifProcessValidated(b, true)
			}
		}
		return fmt.Errorf("no temp block follows the tip")
	}
	return nil
}

// structural invariants of a recovered node
func structural(n *node.Node) []string {
	bad := []string{}
	tip := n.Tip()
	if tip == nil {
		return []string{"no tip after restart"}
	}
	da := n.Chain.DataAccess()
	for h := n.Cfg.GenesisHeight; h <= tip.Header.Height; h++ {
		b, err := da.GetBlockByHeight(h)
		if err != nil {
			bad = append(bad, fmt.Sprintf("height index: block at height %d unreadable: %v", h, err))
			continue
		}
		if b.Header.Height != h {
			bad = append(bad, fmt.Sprintf("height index: height %d points to a block of height %d", h, b.Header.Height))
		}
		if h > n.Cfg.GenesisHeight {
			if p, err := da.GetBlockHeaderByHeight(h - 1); err == nil && string(p.ID) != string(b.Header.PreviousBlockID) {
				bad = append(bad, fmt.Sprintf("chain broken between %d and %d", h-1, h))
			}
		}
	}
	if _, err := da.GetBlockHeaderByHeight(tip.Header.Height + 1); err == nil {
		bad = append(bad, "height index extends beyond the restart tip")
	}
	fin := n.Finalized()
	dump := n.Dump()
	for k := range dump {
		if len(k) == 5 && k[0] == 51 {
			h := uint32(k[1])<<24 | uint32(k[2])<<16 | uint32(k[3])<<8 | uint32(k[4])
			if h > tip.Header.Height {
				bad = append(bad, fmt.Sprintf("state diff for height %d above the tip %d", h, tip.Header.Height))
			}
		}
	}
	for h := fin + 1; h <= tip.Header.Height; h++ {
		if _, ok := dump[string([]byte{51, byte(h >> 24), byte(h >> 16), byte(h >> 8), byte(h)})]; !ok && h > n.Cfg.GenesisHeight {
			bad = append(bad, fmt.Sprintf("no state diff for height %d in (finalized %d, tip %d]", h, fin, tip.Header.Height))
		}
	}
	// consensus store matches the tip: the node can extend its own tip
	if _, err := n.ApplyMenu(0, 0); err != nil {
		bad = append(bad, "restarted node cannot extend its tip: "+err.Error())
	}
	return bad
}

type job struct {
	hi, k  int
	policy string
	refs   []string
	bounds []int
	gts    uint32
	coarse bool
	tail   int
}

func mkCase(h []opT, j job, completed int) caseT {
	c := caseT{History: j.hi, CrashAt: j.k, Policy: j.policy, Op: completed, Tail: j.tail}
	if j.hi < 0 {
		c.Ops = h
	}
	return c
}

// reference runs h without a crash and returns the dump hash after each completed operation, the mutation count
// at each operation boundary and the genesis timestamp; ok=false when an operation is refused.
func reference(h []opT) (refs []string, bounds []int, gts uint32, ok bool) {
	w := crashfs.NewWorld()
	sess := w.NewSession(0, false)
	n, err := node.New(cfgFor(sess, false, 0, false))
	if err != nil {
		panic(err)
	}
	defer n.Close()
	gts = n.Genesis.Header.Timestamp
	refs = []string{node.DumpHash(n.CanonicalDump())}
	bounds = []int{sess.Count()}
	for _, o := range h {
		perr := ""
		if p := vlib.Catch(func() {
			if e := doOp(n, o); e != nil {
				perr = e.Error()
			}
		}); p != "" {
			perr = p
		}
		if perr != "" {
			return nil, nil, 0, false
		}
		refs = append(refs, node.DumpHash(n.CanonicalDump()))
		bounds = append(bounds, sess.Count())
	}
	return refs, bounds, gts, true
}

func runCase(r *vlib.Run, h []opT, j job) {
	if r.Expired() {
		r.Cap("deadline")
		return
	}
	w := crashfs.NewWorld()
	sess := w.NewSession(j.k, j.policy == "torn")
	if j.coarse {
		sess = w.NewCoarseSession(j.k, j.tail)
	}
	n, err := node.New(cfgFor(sess, false, j.gts, j.coarse))
	completed := 0
	if err == nil {
		for _, o := range h {
			if sess.Dead() {
				break
			}
			perr := ""
			if p := vlib.Catch(func() {
				if e := doOp(n, o); e != nil {
					perr = e.Error()
				}
			}); p != "" {
				perr = p
			}
			if sess.Dead() {
				break
			}
			if perr != "" {
				r.Violation("history-op-failed-without-crash", perr, mkCase(h, j, completed))
				return
			}
			completed++
		}
	}
	sess.Kill()
	if j.policy == "lost" {
		w.LoseUnsynced()
	}
	r.Add("evaluations", 1)
	c := mkCase(h, j, completed)
	// restart
	s2 := w.NewSession(0, false)
	var n2 *node.Node
	if p := vlib.Catch(func() { n2, err = node.New(cfgFor(s2, true, j.gts, j.coarse)) }); p != "" || err != nil {
		r.Violation(fmt.Sprintf("restart-fails:h%d", j.hi), fmt.Sprintf("node does not restart after a crash before mutation %d (%s, during op %d): %v %s", j.k, j.policy, completed, err, p), c)
		return
	}
	got := node.DumpHash(n2.CanonicalDump())
	// ops 0..completed-1 were acknowledged; op `completed` was in flight (if any)
	match := -1
	for i, ref := range j.refs {
		if ref == got {
			match = i
		}
	}
	inflight := completed < len(h)
	okSet := got == j.refs[completed] || (inflight && got == j.refs[completed+1])
	if j.k <= j.bounds[0] {
		// crash while the genesis block is being written: genesis absent (re-created on restart) or complete
		okSet = got == j.refs[0]
	}
	switch {
	case match < 0:
		r.Violation(fmt.Sprintf("partial-state:h%d:%s", j.hi, j.policy), fmt.Sprintf("recovered database equals no state between operations (crash before mutation %d, %s, %d ops acknowledged, in flight: %v)", j.k, j.policy, completed, inflight), c)
	case !okSet:
		r.Violation(fmt.Sprintf("wrong-prefix:h%d:%s", j.hi, j.policy), fmt.Sprintf("recovered state is the one after %d ops but %d ops had been acknowledged (crash before mutation %d, %s)", match, completed, j.k, j.policy), c)
	default:
		r.AddMap("recovered_to", fmt.Sprintf("%s:%s", j.policy, map[bool]string{true: "all-of-in-flight-op", false: "none-of-in-flight-op"}[match == completed+1 && inflight]), 1)
	}
	if bad := structural(n2); len(bad) > 0 {
		r.Violation(fmt.Sprintf("structure:h%d:%s", j.hi, j.policy), fmt.Sprintf("after a crash before mutation %d (%s): %v", j.k, j.policy, bad), c)
	}
	n2.Close()
}

func main() {
	r := vlib.Start("C13", "fault_enumeration", 4*time.Minute, 20*time.Minute)
	r.Assume("crash model: the process dies just before the k-th file-system mutation (create, write, sync, rename, remove, link, mkdir, directory sync) issued by pebble; unsynced data is then (a) lost entirely incl. unsynced directory entries, (b) entirely on disk, (c) on disk with the last write torn in half")
	r.Assume("the application's own durability is out of scope: after the crash the mock application is put at the state root of the recovered tip")
	hs := append(append([][]opT{}, histories...), largeHistory)
	large := len(hs) - 1
	r.Assume("history with write batches above 4 MiB (coarse mode): crash points are all file-system mutations other than Write; for the data written since the previous crash point three outcomes are enumerated per point (none of it, all of it, the first b bytes for the listed fractions b of its length)")
	jobs := []job{}
	for hi, h := range hs {
		// reference run: state after each completed op and the mutation count at each op boundary
		w := crashfs.NewWorld()
		coarse := hi == large
		sess := w.NewSession(0, false)
		if coarse {
			sess = w.NewCoarseSession(0, -1)
		}
		n, err := node.New(cfgFor(sess, false, 0, coarse))
		if err != nil {
			panic(err)
		}
		gts := n.Genesis.Header.Timestamp
		refs := []string{node.DumpHash(n.CanonicalDump())}
		bounds := []int{sess.Count()}
		for i, o := range h {
			if err := doOp(n, o); err != nil {
				panic(fmt.Sprintf("history %d op %d: %v", hi, i, err))
			}
			refs = append(refs, node.DumpHash(n.CanonicalDump()))
			bounds = append(bounds, sess.Count())
		}
		N := sess.Count()
		if os.Getenv("VERIF_WORKER") != "" {
			// workers recompute the reference only to know the job list
		} else {
			r.AddMap("fs_mutations_per_history", fmt.Sprint(hi), int64(N))
			r.Sample(map[string]interface{}{"history": hi, "ops": h, "fs_mutations": N, "first_mutations": sess.Log[:min(12, len(sess.Log))]})
		}
		for k := 1; k <= N+1; k++ {
			if coarse {
				jobs = append(jobs, job{hi, k, "lost", refs, bounds, gts, true, -1}, job{hi, k, "survived", refs, bounds, gts, true, -1})
				if k <= N && sess.Unsynced[k-1] >= 2 {
					fr := []int{4}
					if r.Thorough() {
						fr = []int{1, 2, 3, 4, 5, 6, 7}
					}
					for _, f := range fr {
						jobs = append(jobs, job{hi, k, fmt.Sprintf("first-%d-eighths", f), refs, bounds, gts, true, sess.Unsynced[k-1] * f / 8})
					}
				}
				continue
			}
			for _, p := range []string{"lost", "survived", "torn"} {
				jobs = append(jobs, job{hi, k, p, refs, bounds, gts, false, -1})
			}
		}
	}
	if r.ReplayPath != "" {
		var c caseT
		if err := r.ReadReplay(&c); err == nil {
			nj := []job{}
			for _, j := range jobs {
				if j.hi == c.History && j.k == c.CrashAt && j.policy == c.Policy {
					nj = append(nj, j)
				}
			}
			jobs = nj
		}
	}
	// ---- systematic histories ----
	depth := 2
	if r.Thorough() {
		depth = 3
	}
	items := []string{}
	for ji := range jobs {
		items = append(items, "j"+strconv.Itoa(ji))
	}
	if r.ReplayPath == "" {
		var rec func(pi int, seq []int)
		rec = func(pi int, seq []int) {
			if len(seq) > 0 {
				parts := make([]string, len(seq))
				for i, a := range seq {
					parts[i] = strconv.Itoa(a)
				}
				items = append(items, fmt.Sprintf("s|%d|%s", pi, strings.Join(parts, ",")))
			}
			if len(seq) == depth {
				return
			}
			for a := range sysAlphabet {
				rec(pi, append(append([]int{}, seq...), a))
			}
		}
		for pi := range sysPrefixes {
			rec(pi, nil)
		}
	} else {
		var c caseT
		if err := r.ReadReplay(&c); err == nil && c.History < 0 {
			// replay of a systematic case: run exactly that case
			items = nil
			refs, bounds, gts, ok := reference(c.Ops)
			if ok {
				runCase(r, c.Ops, job{-1, c.CrashAt, c.Policy, refs, bounds, gts, false, -1})
			}
		}
	}
	r.Set("max_systematic_depth", depth)
	r.RunItems(items, func(it string) {
		if it[0] == 'j' {
			ji, _ := strconv.Atoi(it[1:])
			runCase(r, hs[jobs[ji].hi], jobs[ji])
			return
		}
		f := strings.Split(it, "|")
		pi, _ := strconv.Atoi(f[1])
		h := append([]opT{}, sysPrefixes[pi]...)
		for _, a := range strings.Split(f[2], ",") {
			ai, _ := strconv.Atoi(a)
			h = append(h, sysAlphabet[ai])
		}
		if r.Expired() {
			r.Cap("deadline (systematic histories)")
			return
		}
		refs, bounds, gts, ok := reference(h)
		if !ok {
			r.Add("systematic_histories_refused_by_reference_run", 1)
			return
		}
		r.Add("systematic_histories", 1)
		r.AddMap("systematic_histories_by_length", strconv.Itoa(len(h)-len(sysPrefixes[pi])), 1)
		// crash points of the last operation only: a sequence's earlier operations are the last operation of a shorter
		// sequence from the same start state, so every mutation boundary of every sequence is covered exactly once
		N := bounds[len(bounds)-1]
		from := bounds[len(h)-1] + 1
		for k := from; k <= N; k++ {
			for _, p := range []string{"lost", "survived", "torn"} {
				r.Add("systematic_cases", 1)
				runCase(r, h, job{-1, k, p, refs, bounds, gts, false, -1})
			}
		}
	})
	r.Set("distinct_nontrivial", r.Get("evaluations"))
	r.Set("rule", "one case per (history, k, policy): k ranges over every file-system mutation boundary of the reference run (+1 = no crash); every case is distinct; each re-executes the history on a fresh strict in-memory FS, dies before mutation k, applies the policy, reopens pebble, restarts Chain+Executer and compares the canonical DB dump with the reference dumps after each operation, then checks the height index, chain links, diff keys and that the node extends its tip")
	r.Finish()
}

func min(a, b int) int {
	if a < b {
		return a
	}
	return b
}
