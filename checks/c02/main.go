// C02: the BFT heights / vote weights reported by the real liskbft module equal the LIP-0058
// counting rules (reference model ref.BFT) after every header of every explored chain.
// Explicit-state, deviation-bounded DFS; every transition is a call into the real module.
package main

import (
	"bytes"
	"crypto/sha256"
	"encoding/hex"
	"errors"
	"fmt"
	"runtime"
	"sort"
	"sync"
	"sync/atomic"
	"time"

	"github.com/LiskHQ/lisk-engine/pkg/consensus/liskbft"
	"github.com/LiskHQ/lisk-engine/pkg/statemachine"

	"verif/bftwalk"
	"verif/bftx"
	"verif/ref"
	"verif/vlib"
)

type replayCase struct {
	Cfg  string         `json:"cfg"`
	Path []bftwalk.Step `json:"path"`
}

func compare(env *bftx.Env, n *bftwalk.Node, maxVal int) string {
	d := bftx.View(n.St)
	v, err := liskbft.VerifDumpVotes(d)
	if err != nil {
		return "dump: " + err.Error()
	}
	r := n.Ref
	if v.MaxHeightPrevoted != r.MaxPrevoted || v.MaxHeightPrecommited != r.MaxPrecommit || v.MaxHeightCertified != r.MaxCertified {
		return fmt.Sprintf("heights real=(%d,%d,%d) ref=(%d,%d,%d)", v.MaxHeightPrevoted, v.MaxHeightPrecommited, v.MaxHeightCertified, r.MaxPrevoted, r.MaxPrecommit, r.MaxCertified)
	}
	a, b, c, err := env.Mod.API().GetBFTHeights(d)
	if err != nil || a != r.MaxPrevoted || b != r.MaxPrecommit || c != r.MaxCertified {
		return fmt.Sprintf("GetBFTHeights=(%d,%d,%d,%v) ref=(%d,%d,%d)", a, b, c, err, r.MaxPrevoted, r.MaxPrecommit, r.MaxCertified)
	}
	if len(v.Blocks) != len(r.Infos) {
		return fmt.Sprintf("window length real=%d ref=%d", len(v.Blocks), len(r.Infos))
	}
	for i, bi := range v.Blocks {
		if i > 0 && v.Blocks[i-1].Height != bi.Height+1 {
			return "window not contiguous descending"
		}
		ri, ok := r.Infos[bi.Height]
		if !ok {
			return fmt.Sprintf("real has info for height %d, ref has not", bi.Height)
		}
		if bi.Generator != ri.Generator || bi.MaxHeightGenerated != ri.MHG || bi.MaxHeightPrevoted != ri.MHP ||
			bi.PrevoteWeight != ri.PrevoteWeight || bi.PrecommitWeight != ri.PrecommitWeight {
			return fmt.Sprintf("info@%d real=(mhg%d mhp%d pv%d pc%d) ref=(mhg%d mhp%d pv%d pc%d)", bi.Height,
				bi.MaxHeightGenerated, bi.MaxHeightPrevoted, bi.PrevoteWeight, bi.PrecommitWeight, ri.MHG, ri.MHP, ri.PrevoteWeight, ri.PrecommitWeight)
		}
	}
	if len(v.Validators) != len(r.Active) {
		return fmt.Sprintf("active validators real=%d ref=%d", len(v.Validators), len(r.Active))
	}
	for _, av := range v.Validators {
		rv, ok := r.Active[av.Address]
		if !ok {
			return "active validator unknown to ref"
		}
		if av.MinActiveHeight != rv.MinActiveHeight || av.LargestHeightPrecommit != rv.LargestHeightPrecommit {
			return fmt.Sprintf("validator %x real=(min%d lhp%d) ref=(min%d lhp%d)", av.Address[:1], av.MinActiveHeight, av.LargestHeightPrecommit, rv.MinActiveHeight, rv.LargestHeightPrecommit)
		}
	}
	keys := liskbft.VerifParamKeys(d)
	rkeys := []uint32{}
	for k := range r.Params {
		rkeys = append(rkeys, k)
	}
	sort.Slice(rkeys, func(i, j int) bool { return rkeys[i] < rkeys[j] })
	if fmt.Sprint(keys) != fmt.Sprint(rkeys) {
		return fmt.Sprintf("stored parameter heights real=%v ref=%v", keys, rkeys)
	}
	lo := uint32(0)
	if len(rkeys) > 0 && rkeys[0] > 0 {
		lo = rkeys[0] - 1
	}
	for h := lo; h <= n.Height+2; h++ {
		p, err := env.Mod.API().GetBFTParameters(d, h)
		rp, _, ok := r.ParamsAt(h)
		if (err == nil) != ok {
			return fmt.Sprintf("GetBFTParameters(%d) err=%v ref ok=%v", h, err, ok)
		}
		if ok {
			if p.PrevoteThreshold() != rp.Prevote || p.PrecommitThreshold() != rp.Precommit || p.CertificateThreshold() != rp.Cert {
				return fmt.Sprintf("params@%d thresholds real=(%d,%d,%d) ref=(%d,%d,%d)", h, p.PrevoteThreshold(), p.PrecommitThreshold(), p.CertificateThreshold(), rp.Prevote, rp.Precommit, rp.Cert)
			}
			if len(p.Validators()) != len(rp.Weights) {
				return fmt.Sprintf("params@%d validator count", h)
			}
			hv := []ref.HashVal{}
			for _, pv := range p.Validators() {
				if rp.Weights[string(pv.Address())] != pv.BFTWeight() {
					return fmt.Sprintf("params@%d weight of %x", h, pv.Address()[:1])
				}
				hv = append(hv, ref.HashVal{BLS: pv.BLSKey(), Weight: pv.BFTWeight()})
			}
			if !bytes.Equal(p.ValidatorsHash(), ref.ValidatorsHash(hv, rp.Cert)) {
				return fmt.Sprintf("params@%d validatorsHash differs from LIP-0058 hash", h)
			}
		}
		ex, err := env.Mod.API().ExistBFTParameters(d, h)
		_, rex := r.Params[h]
		if err != nil || ex != rex {
			return fmt.Sprintf("ExistBFTParameters(%d)=%v,%v ref=%v", h, ex, err, rex)
		}
		nh, err := env.Mod.API().NextHeightBFTParameters(d, h)
		rnh, rok := r.NextParamsHeight(h)
		if rok {
			if err != nil || nh != rnh {
				return fmt.Sprintf("NextHeightBFTParameters(%d)=%d,%v ref=%d", h, nh, err, rnh)
			}
		} else if !errors.Is(err, statemachine.ErrNotFound) {
			return fmt.Sprintf("NextHeightBFTParameters(%d)=%d,%v ref=not found", h, nh, err)
		}
	}
	if n.LastH != nil {
		imp, err := env.Mod.API().ImpliesMaximalPrevotes(d, n.LastH)
		rimp := r.ImpliesMaxPrevotes(ref.BHeader{Height: n.LastH.H, Generator: string(n.LastH.Gen), MHG: n.LastH.MHG})
		if err != nil || imp != rimp {
			return fmt.Sprintf("ImpliesMaximalPrevotes=%v,%v ref=%v (height %d mhg %d)", imp, err, rimp, n.LastH.H, n.LastH.MHG)
		}
	}
	return ""
}

type cfgT struct {
	name string
	c    bftwalk.Config
}

func eq(n int) []uint64 {
	w := make([]uint64, n)
	for i := range w {
		w[i] = 1
	}
	return w
}

func spec(w []uint64) bftwalk.Spec {
	var W uint64
	for _, x := range w {
		W += x
	}
	return bftwalk.Spec{Weights: w, Precommit: 2*W/3 + 1, Cert: 2*W/3 + 1}
}

func configs(thorough bool) []cfgT {
	all := []int{0, 1, 2, 3, 4, 5}
	cs := []cfgT{
		// full enumeration (budget = unlimited) of short chains, all menus
		{"dev3-b2-n2-d5", bftwalk.Config{Batch: 2, Genesis: 0, Init: spec(eq(2)), Depth: 5, Budget: 3, MaxVal: 3, ParamMenu: true, AggMenu: true, MHPMenu: true, NonMember: true, MHGAlts: []int{0, 1, 2, 3}}},
		// deviation bounded, past the 3*batch window and past pruning
		{"dev2-b2-n2-d9", bftwalk.Config{Batch: 2, Genesis: 0, Init: spec(eq(2)), Depth: 9, Budget: 2, MaxVal: 3, ParamMenu: true, AggMenu: true, MHPMenu: true, NonMember: true, MHGAlts: all}},
		{"dev2-b3-n3-d12", bftwalk.Config{Batch: 3, Genesis: 5, Init: spec(eq(3)), Depth: 12, Budget: 2, MaxVal: 4, ParamMenu: true, AggMenu: true, MHPMenu: true, NonMember: true, MHGAlts: all}},
		{"dev2-b4-w2111-d14", bftwalk.Config{Batch: 4, Genesis: 0, Init: spec([]uint64{2, 1, 1, 1}), Depth: 14, Budget: 2, MaxVal: 4, ParamMenu: true, AggMenu: true, MHPMenu: false, NonMember: true, MHGAlts: []int{0, 1, 2, 4}}},
	}
	if thorough {
		cs = append(cs,
			cfgT{"full-b2-n2-d3", bftwalk.Config{Batch: 2, Genesis: 0, Init: spec(eq(2)), Depth: 3, Budget: 99, MaxVal: 3, ParamMenu: true, AggMenu: true, MHPMenu: false, NonMember: true, MHGAlts: []int{0, 1, 2, 3}}},
			cfgT{"dev5-b2-n2-d5", bftwalk.Config{Batch: 2, Genesis: 0, Init: spec(eq(2)), Depth: 5, Budget: 5, MaxVal: 3, ParamMenu: true, AggMenu: true, MHPMenu: false, NonMember: true, MHGAlts: []int{0, 1, 2, 3}}},
			cfgT{"dev3-b2-n2-d9", bftwalk.Config{Batch: 2, Genesis: 0, Init: spec(eq(2)), Depth: 9, Budget: 3, MaxVal: 3, ParamMenu: true, AggMenu: true, MHPMenu: true, NonMember: true, MHGAlts: all}},
			cfgT{"dev3-b3-n3-d12", bftwalk.Config{Batch: 3, Genesis: 5, Init: spec(eq(3)), Depth: 12, Budget: 3, MaxVal: 4, ParamMenu: true, AggMenu: true, MHPMenu: false, NonMember: true, MHGAlts: all}},
			cfgT{"dev3-b4-w2111-d14", bftwalk.Config{Batch: 4, Genesis: 0, Init: spec([]uint64{2, 1, 1, 1}), Depth: 14, Budget: 3, MaxVal: 5, ParamMenu: true, AggMenu: true, MHPMenu: false, NonMember: false, MHGAlts: []int{0, 1, 2, 4}}},
			cfgT{"dev4-b3-n2-d11", bftwalk.Config{Batch: 3, Genesis: 0, Init: spec(eq(2)), Depth: 11, Budget: 4, MaxVal: 3, ParamMenu: true, AggMenu: true, MHPMenu: false, NonMember: false, MHGAlts: []int{0, 1, 2}}},
		)
	}
	return cs
}

type shard struct {
	cfg  cfgT
	root *bftwalk.Node
	bud  int
}

func main() {
	r := vlib.Start("C02", "model_checking", 4*time.Minute, 25*time.Minute)
	r.Assume("reference model ref/lip58.go is a faithful transcription of LIP-0058 (kept structurally different: height-keyed maps instead of window slices)")
	r.Assume("BLS keys are opaque 48-byte strings here; signatures are not part of vote counting")

	if r.ReplayPath != "" {
		var rc replayCase
		if err := r.ReadReplay(&rc); err != nil {
			fmt.Println("cannot read replay:", err)
			r.Finish()
		}
		for _, c := range configs(true) {
			if c.name != rc.Cfg {
				continue
			}
			w := &bftwalk.Walker{Cfg: c.c, Env: bftx.NewEnv(c.c.Batch), Fail: func(k, what string, p []bftwalk.Step) {
				r.Violation(k, what, replayCase{c.name, p})
			}}
			n := w.Root()
			for _, s := range rc.Path {
				ch, err := w.Do(n, s)
				if err != nil {
					r.Violation("accept-mismatch:"+s.String(), err.Error(), rc)
					break
				}
				if ch == nil {
					break
				}
				if d := compare(w.Env, ch, c.c.MaxVal); d != "" {
					r.Violation("replay", d, rc)
					fmt.Println("replay: divergence reproduced:", d)
					break
				}
				n = ch
			}
		}
		r.Finish()
	}

	var states sync.Map
	var nstates, ntrans, ndup int64
	var classMu sync.Mutex
	classes := map[string]int{}

	// first violation per oracle class and configuration is keyed by its class; later ones with the same class only counted
	report := func(cfg string, class, what string, path []bftwalk.Step) {
		r.Violation(class, what+" | cfg="+cfg+" path="+fmt.Sprint(path), replayCase{cfg, path})
	}

	// build shards: expand each configuration two levels, then run subtrees in parallel
	shards := []shard{}
	for _, c := range configs(r.Thorough()) {
		if r.Only != "" && r.Only != c.name {
			continue
		}
		w := &bftwalk.Walker{Cfg: c.c, Env: bftx.NewEnv(c.c.Batch)}
		root := w.Root()
		if d := compare(w.Env, root, c.c.MaxVal); d != "" {
			report(c.name, "genesis", d, nil)
		}
		for _, s := range w.Successors(root, c.c.Budget) {
			ch, err := w.Do(root, s)
			if err != nil {
				report(c.name, "accept-mismatch", err.Error(), []bftwalk.Step{s})
				continue
			}
			if ch == nil {
				continue
			}
			ntrans++
			if d := compare(w.Env, ch, c.c.MaxVal); d != "" {
				report(c.name, classify(d), d, ch.Path)
				continue
			}
			shards = append(shards, shard{c, ch, c.c.Budget - s.Cost})
		}
	}
	// interleave shards of different configs deterministically by seed rotation
	if len(shards) > 0 {
		rot := int(r.Seed % int64(len(shards)))
		if rot < 0 {
			rot = -rot
		}
		shards = append(shards[rot:], shards[:rot]...)
	}

	vlib.Parallel(len(shards), runtime.NumCPU(), func(i int) {
		sh := shards[i]
		env := bftx.NewEnv(sh.cfg.c.Batch)
		env2 := bftx.NewEnv(sh.cfg.c.Batch)
		w := &bftwalk.Walker{Cfg: sh.cfg.c, Env: env}
		w.Stop = func() bool { return r.Expired() }
		w.Fail = func(k, what string, p []bftwalk.Step) { report(sh.cfg.name, "accept-mismatch", what, p) }
		w.OnTransition = func(parent, child *bftwalk.Node, s bftwalk.Step) bool {
			atomic.AddInt64(&ntrans, 1)
			if d := compare(env, child, sh.cfg.c.MaxVal); d != "" {
				report(sh.cfg.name, classify(d), d, child.Path)
				return false
			}
			// two nodes agree: the same header on a second, independent module instance gives the same bytes
			if child.LastH != nil && s.Param == 0 {
				st2, err := env2.Apply(parent.St, child.LastH)
				if err != nil || !bytes.Equal(st2.Bytes(), child.St.Bytes()) {
					report(sh.cfg.name, "nondeterministic-store", "second instance produced a different store", child.Path)
				}
			}
			sum := sha256.Sum256(append([]byte(sh.cfg.name), child.St.Bytes()...))
			if _, dup := states.LoadOrStore(sum, true); dup {
				atomic.AddInt64(&ndup, 1)
			} else {
				atomic.AddInt64(&nstates, 1)
				if len(child.Path) == sh.cfg.c.Depth {
					classMu.Lock()
					classes[fmt.Sprintf("%s:pv%d/pc%d/c%d", sh.cfg.name, child.Ref.MaxPrevoted, child.Ref.MaxPrecommit, child.Ref.MaxCertified)]++
					classMu.Unlock()
				}
			}
			return true
		}
		w.Walk(sh.root, sh.bud)
		if r.Expired() {
			r.Cap("internal deadline reached inside " + sh.cfg.name)
		}
	})

	// liveness clause: fault-free round robin, every block final within t+p-1 further blocks
	liveRuns := 0
	for _, n := range []int{3, 4, 5, 7} {
		for _, pcMax := range []bool{false, true} {
			sp := spec(eq(n))
			if pcMax {
				sp.Precommit = uint64(n)
			}
			env := bftx.NewEnv(n)
			w := &bftwalk.Walker{Cfg: bftwalk.Config{Batch: n, Genesis: 0, Init: sp, Depth: 4 * n, MaxVal: n}, Env: env}
			node := w.Root()
			t := 2*uint64(n)/3 + 1
			bound := uint32(t + sp.Precommit - 1)
			for len(node.Path) < 4*n {
				succ := w.Successors(node, 0)
				ch, err := w.Do(node, succ[0])
				if err != nil || ch == nil {
					r.Violation("liveness-walk", fmt.Sprint("default step failed: ", err), nil)
					break
				}
				ntrans++
				node = ch
				_, pc, _ := env.Heights(node.St)
				if node.Height > bound && pc < node.Height-bound {
					r.Violation(fmt.Sprintf("liveness-n%d-pcmax%v", n, pcMax),
						fmt.Sprintf("fault-free round robin n=%d: after block %d precommitted=%d < %d", n, node.Height, pc, node.Height-bound), replayCase{"liveness", node.Path})
					break
				}
			}
			liveRuns++
		}
	}

	outcomes := []string{}
	for k, v := range classes {
		outcomes = append(outcomes, fmt.Sprintf("%s x%d", k, v))
	}
	sort.Strings(outcomes)
	if len(outcomes) > 40 {
		outcomes = outcomes[:40]
	}
	r.Set("states", nstates)
	r.Set("transitions", ntrans)
	r.Set("duplicate_states_merged", ndup)
	r.Set("traces_validated_against_impl", ntrans)
	r.Set("configs", len(configs(r.Thorough())))
	r.Set("liveness_runs", liveRuns)
	r.Set("distinct_final_height_triples", len(classes))
	r.Set("final_outcomes_sample", outcomes)
	r.Set("explanation", "every transition is a real liskbft.Module.BeforeTransactionsExecute / API.SetBFTParameters call on a cloned store; the full decoded BFTVotes dump, parameter store and API answers are compared with ref.BFT after each; states = distinct real store serialisations")
	for _, sh := range shards[:min(3, len(shards))] {
		r.Sample(map[string]interface{}{"cfg": sh.cfg.name, "first_step": sh.root.Path, "store_sha": hex.EncodeToString(sha(sh.root.St.Bytes()))})
	}
	r.Finish()
}

func sha(b []byte) []byte { s := sha256.Sum256(b); return s[:8] }

func min(a, b int) int {
	if a < b {
		return a
	}
	return b
}

// classify maps a divergence message to a coarse oracle class (used as violation key).
func classify(d string) string {
	for _, p := range []string{"heights", "GetBFTHeights", "window", "info@", "active", "validator", "stored parameter", "GetBFTParameters", "params@", "ExistBFTParameters", "NextHeightBFTParameters", "ImpliesMaximalPrevotes", "real has info"} {
		if len(d) >= len(p) && d[:len(p)] == p {
			return "diverge:" + p
		}
	}
	return "diverge:other"
}
