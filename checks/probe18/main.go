package main

import (
	"context"
	"fmt"
	"time"

	"github.com/LiskHQ/lisk-engine/pkg/p2p"
	"github.com/libp2p/go-libp2p/core/peer"
	"verif/nolog"
)

func main() {
	mk := func(port int, seed string) *p2p.Connection {
		c := p2p.NewConnection(nolog.L{}, &p2p.Config{Addresses: []string{fmt.Sprintf("/ip4/127.0.0.1/tcp/%d", port)}, ChainID: []byte{1, 2, 3, 4}, Version: "1.0"})
		_ = c.RegisterRPCHandler("echo", func(w p2p.ResponseWriter, req *p2p.Request) { w.Write(req.Data) })
		if err := c.Start([]byte(seed)); err != nil {
			panic(err)
		}
		return c
	}
	a := mk(27001, "seed-a")
	b := mk(27002, "seed-b")
	defer a.Stop()
	defer b.Stop()
	ha, hb := a.VerifHost(), b.VerifHost()
	if err := hb.Connect(context.Background(), peer.AddrInfo{ID: ha.ID(), Addrs: ha.Addrs()}); err != nil {
		panic(err)
	}
	fmt.Println("connected:", a.ConnectedPeers(), "req proto", a.VerifReqProtocol())
	s, err := hb.NewStream(context.Background(), ha.ID(), a.VerifReqProtocol())
	if err != nil {
		panic(err)
	}
	s.Write([]byte{0xff, 0xff, 0xff})
	s.Close()
	time.Sleep(500 * time.Millisecond)
	fmt.Println("after malformed: A connected peers:", a.ConnectedPeers(), "allowed:", a.VerifAllowed(hb.Addrs()[0]))
	a.BanPeer(hb.ID())
	time.Sleep(300 * time.Millisecond)
	fmt.Println("after BanPeer: A connected peers:", a.ConnectedPeers())
}
