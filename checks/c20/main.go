// C20: shared chain data is race-free and deadlock-free under concurrent use.
// (1) exhaustive interleaving exploration (preemption bounded) of the real, scheduler-instrumented
//     block cache / data access / certificate pool / event emitter / staged store;
// (2) the same scenario bodies free-running under the Go race detector (separate -race build).
package main

import (
	"encoding/json"
	"fmt"
	"os"
	"os/exec"
	"regexp"
	"sort"
	"strings"
	"time"

	"github.com/LiskHQ/lisk-engine/pkg/verifrt/vsched"

	"verif/conc"
	"verif/vlib"
)

type caseT struct {
	Scenario string   `json:"scenario"`
	Choices  []int    `json:"choices"`
	Steps    []string `json:"steps"`
}

func keyOf(scn, msg string) string {
	m := msg
	if i := strings.IndexByte(m, '\n'); i >= 0 {
		m = m[:i]
	}
	// strip addresses / counters so that the key names the call sites
	m = regexp.MustCompile(`0x[0-9a-f]+|@[0-9a-f]+`).ReplaceAllString(m, "")
	if len(m) > 140 {
		m = m[:140]
	}
	return scn + ": " + m
}

func racePass(r *vlib.Run) {
	// build the same bodies without instrumentation but with the race detector
	ov := map[string]interface{}{}
	b, _ := os.ReadFile("/verif/.overlay/c20/overlay.json")
	var full struct{ Replace map[string]string }
	_ = json.Unmarshal(b, &full)
	rep := map[string]string{}
	for k, v := range full.Replace {
		if strings.Contains(k, "/pkg/verifrt/") {
			rep[k] = v
		}
	}
	if mo := os.Getenv("VERIF_MUT_OVERLAY"); mo != "" {
		var m struct{ Replace map[string]string }
		if mb, err := os.ReadFile(mo); err == nil && json.Unmarshal(mb, &m) == nil {
			for k, v := range m.Replace {
				rep[k] = v // the race pass runs the un-instrumented (possibly mutated) sources
			}
		}
	}
	ov["Replace"] = rep
	ob, _ := json.Marshal(ov)
	_ = os.WriteFile("/verif/.overlay/c20-rt.json", ob, 0o644)
	cmd := exec.Command("go", "build", "-race", "-tags", "verif", "-overlay=/verif/.overlay/c20-rt.json", "-o", "/verif/bin/c20-race", "./checks/c20")
	cmd.Dir = "/verif"
	cmd.Env = append(os.Environ(), "GOFLAGS=-mod=mod", "GOPROXY=off", "GOSUMDB=off", "GOTOOLCHAIN=local")
	if out, err := cmd.CombinedOutput(); err != nil {
		fmt.Println("HARNESS-ERROR race build failed:", err, string(out))
		os.Exit(2)
	}
	iters := "60"
	if r.Thorough() {
		iters = "400"
	}
	for _, procs := range []string{"2", "16"} {
		c := exec.Command("/verif/bin/c20-race", "--only", "RACEPASS:"+iters)
		c.Env = append(os.Environ(), "GOMAXPROCS="+procs, "GORACE=halt_on_error=0")
		out, _ := c.CombinedOutput()
		reports := strings.Split(string(out), "WARNING: DATA RACE")
		r.Add("race_pass_runs", 1)
		for _, rp := range reports[1:] {
			// key = the two top repository frames
			frames := regexp.MustCompile(`github.com/LiskHQ/lisk-engine/pkg/[^\s(]+`).FindAllString(rp, -1)
			uniq := []string{}
			seen := map[string]bool{}
			for _, f := range frames {
				f = regexp.MustCompile(`\.func\d+(\.\d+)*`).ReplaceAllString(f, "")
				if !seen[f] && !strings.Contains(f, "verifrt") {
					seen[f] = true
					uniq = append(uniq, strings.TrimPrefix(f, "github.com/LiskHQ/lisk-engine/pkg/"))
				}
			}
			if len(uniq) > 2 {
				uniq = uniq[:2]
			}
			sort.Strings(uniq)
			k := "data-race: " + strings.Join(uniq, " <-> ")
			lines := strings.Split(rp, "\n")
			if len(lines) > 24 {
				lines = lines[:24]
			}
			r.Violation(k, "Go race detector report in the free-running pass:\n"+strings.Join(lines, "\n"), map[string]string{"report": strings.Join(lines, "\n")})
		}
		if strings.Contains(string(out), "RACEPASS-DONE") {
			r.Add("race_pass_completed", 1)
		} else {
			r.Violation("race-pass-did-not-finish", "free-running pass did not finish (deadlock or crash): "+tail(string(out), 600), nil)
		}
	}
}

func tail(s string, n int) string {
	if len(s) > n {
		return s[len(s)-n:]
	}
	return s
}

func main() {
	r := vlib.Start("C20", "model_checking", 5*time.Minute, 25*time.Minute)
	if strings.HasPrefix(r.Only, "RACEPASS:") {
		// free-running mode (built with -race, no instrumentation)
		n := 0
		fmt.Sscanf(strings.TrimPrefix(r.Only, "RACEPASS:"), "%d", &n)
		for i := 0; i < n; i++ {
			for _, s := range conc.All {
				done := make(chan struct{})
				go func() { defer close(done); s.Body() }()
				select {
				case <-done:
				case <-time.After(60 * time.Second):
					fmt.Println("RACEPASS-HANG in", s.Name)
					os.Exit(3)
				}
			}
		}
		fmt.Println("RACEPASS-DONE")
		os.Exit(0)
	}
	r.Assume("sequentially consistent memory; schedule points before every acquiring synchronisation operation (Lock, RLock, Wait, channel operations, goroutine start) and between the read and the write of unsynchronised read-modify-write statements on captured variables inside goroutine bodies")
	r.Assume("RWMutex modelled with Go's writer preference (a waiting writer blocks new readers)")
	r.Assume("accesses the race detector does not observe in the executed bodies are not covered; pebble's internal goroutines are not scheduled")
	bound := 2
	if r.Thorough() {
		bound = 3
	}
	if r.ReplayPath != "" {
		var c caseT
		if err := r.ReadReplay(&c); err == nil {
			for _, s := range conc.All {
				if s.Name == c.Scenario {
					msg, ev := vsched.Replay(c.Choices, s.Body)
					fmt.Println("replay:", msg, ev)
					if msg != "" {
						r.Violation(keyOf(s.Name, msg), msg, c)
					}
				}
			}
		}
		r.Finish()
	}
	var execs, points, contended int64
	outc := map[string]int{}
	for _, s := range conc.All {
		if r.Only != "" && r.Only != s.Name {
			continue
		}
		rep := vsched.Explore(vsched.Options{Name: s.Name, MaxPreemptions: bound, Deadline: time.Now().Add(r.Remaining() / 2)}, s.Body)
		execs += rep.Executions
		points += rep.Points
		contended += rep.Contended
		outc[s.Name] = len(rep.Outcomes)
		if !rep.Exhaustive {
			r.Cap(fmt.Sprintf("%s: exploration stopped after %d executions (bound %d)", s.Name, rep.Executions, bound))
		}
		r.AddMap("executions_per_scenario", s.Name, rep.Executions)
		r.AddMap("distinct_outcomes_per_scenario", s.Name, int64(len(rep.Outcomes)))
		// report each distinct failure message once, with the schedule needing the fewest preemptions
		best := map[string]vsched.Failure{}
		for _, f := range rep.Failures {
			k := keyOf(s.Name, f.Msg)
			if b, ok := best[k]; !ok || f.Preemptions < b.Preemptions {
				best[k] = f
			}
		}
		for k, f := range best {
			// determinism: the recorded schedule must fail the same way again
			again, _ := vsched.Replay(f.Choices, s.Body)
			if keyOf(s.Name, again) != k {
				fmt.Printf("HARNESS-ERROR schedule of %q does not replay deterministically (%q)\n", k, again)
				os.Exit(2)
			}
			r.Violation(k, fmt.Sprintf("%s [needs %d preemption(s); schedule %v]", f.Msg, f.Preemptions, f.Steps), caseT{s.Name, f.Choices, f.Steps})
		}
		if len(rep.Failures) == 0 {
			// replay determinism check on the default schedule as well
			m1, e1 := vsched.Replay(nil, s.Body)
			m2, e2 := vsched.Replay(nil, s.Body)
			if m1 != m2 || strings.Join(e1, "|") != strings.Join(e2, "|") {
				fmt.Println("HARNESS-ERROR default schedule not deterministic for", s.Name)
				os.Exit(2)
			}
		}
		r.Sample(map[string]interface{}{"scenario": s.Name, "executions": rep.Executions, "threads": rep.MaxThreads, "outcomes": len(rep.Outcomes)})
	}
	if r.Only == "" {
		racePass(r)
	}
	r.Set("states", points)
	r.Set("transitions", points)
	r.Set("executions", execs)
	r.Set("executions_with_contention", contended)
	r.Set("traces_validated_against_impl", execs)
	r.Set("preemption_bound_completed", bound)
	r.Set("explanation", "states/transitions = schedule points executed over all complete executions of the real instrumented code under the controlled scheduler (stateless search, no state merging); every execution runs to completion; deadlock = no enabled thread")
	r.Finish()
}
