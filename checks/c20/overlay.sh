#!/bin/bash
# generates the scheduler-instrumented overlay for C20 from /repo's current working tree
set -e
cd /verif
export GOFLAGS=-mod=mod GOPROXY=off GOSUMDB=off GOTOOLCHAIN=local
go build -o bin/vinstr ./tools/vinstr
./bin/vinstr -out "$1" -chan -rmw pkg/blockchain/block_cache.go pkg/blockchain/data_access.go pkg/blockchain/chain.go pkg/consensus/certificate/pool.go pkg/event/event.go pkg/db/diffdb/db.go
