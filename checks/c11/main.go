// C11: regular Merkle tree — incremental, batch and proof computations agree with LIP-0031.
// Bounded-exhaustive: every list length 0..N, every leaf subset for n <= S, every witness position.
package main

import (
	"bytes"
	"fmt"
	"time"

	"github.com/LiskHQ/lisk-engine/pkg/trie/rmt"

	"verif/ref"
	"verif/vlib"
)

type memDB struct{ m map[string][]byte }

func newMem() *memDB { return &memDB{m: map[string][]byte{}} }
func (d *memDB) Get(k []byte) ([]byte, bool) {
	v, ok := d.m[string(k)]
	if !ok {
		return nil, false
	}
	return append([]byte{}, v...), true
}
func (d *memDB) Set(k, v []byte) { d.m[string(k)] = append([]byte{}, v...) }
func (d *memDB) Del(k []byte)    { delete(d.m, string(k)) }
func (d *memDB) clone() *memDB {
	c := newMem()
	for k, v := range d.m {
		c.m[k] = v
	}
	return c
}

func leaf(i int) []byte { return []byte(fmt.Sprintf("leaf-%04d", i)) }

// refAppendPath: roots of the maximal perfect subtrees of the list, smallest (rightmost) first.
func refAppendPath(data [][]byte) [][]byte {
	out := [][]byte{}
	n := len(data)
	pos := 0
	sub := [][]byte{}
	for bit := 62; bit >= 0; bit-- {
		sz := 1 << uint(bit)
		if n&sz != 0 {
			sub = append(sub, ref.RMTRoot(data[pos:pos+sz]))
			pos += sz
		}
	}
	for i := len(sub) - 1; i >= 0; i-- {
		out = append(out, sub[i])
	}
	return out
}

func eqPath(a, b [][]byte) bool {
	if len(a) != len(b) {
		return false
	}
	for i := range a {
		if !bytes.Equal(a[i], b[i]) {
			return false
		}
	}
	return true
}

type caseT struct {
	N      int    `json:"n"`
	Subset uint64 `json:"subset,omitempty"`
	What   string `json:"what"`
}

func main() {
	r := vlib.Start("C11", "exploration", 3*time.Minute, 15*time.Minute)
	N, S, U := 530, 10, 8
	if r.Thorough() {
		N, S, U = 1100, 13, 10
	}
	var evals, nontrivial int64
	viol := func(key, what string, c caseT) { r.Violation(key, what, c) }

	// 1-3: lengths
	db := newMem()
	tree := rmt.NewRegularMerkleTree(db)
	list := [][]byte{}
	firstFail := map[string]bool{}
	once := func(class string, n int, what string) {
		if !firstFail[class] {
			firstFail[class] = true
			viol(fmt.Sprintf("%s:n=%d", class, n), what, caseT{N: n, What: class})
		} else {
			r.Add("further_failures_"+class, 1)
		}
	}
	for n := 0; n <= N; n++ {
		evals++
		if n > 0 {
			nontrivial++
		}
		want := ref.RMTRoot(list)
		if !bytes.Equal(tree.Root(), want) {
			once("incremental-root", n, fmt.Sprintf("root after %d appends differs from LIP-0031 root", n))
		}
		if !bytes.Equal(rmt.CalculateRoot(list), want) {
			once("batch-root", n, fmt.Sprintf("CalculateRoot of %d leaves differs from LIP-0031 root", n))
		}
		if tree.Size() != uint64(n) {
			once("size", n, fmt.Sprintf("Size()=%d after %d appends", tree.Size(), n))
		}
		if !eqPath(tree.AppendPath(), refAppendPath(list)) {
			once("append-path", n, fmt.Sprintf("AppendPath() after %d appends is not the list of maximal perfect subtree roots", n))
		}
		// reload from storage
		if n > 0 {
			var re *rmt.RegularMerkleTree
			var err error
			if p := vlib.Catch(func() { re, err = rmt.NewRegularMerkleTreeWithPastData(db.clone()) }); p != "" {
				once("reload-panic", n, "reload panics: "+p)
			} else if err != nil {
				once("reload-error", n, fmt.Sprintf("reloading the tree after %d appends fails: %v", n, err))
			} else {
				if !bytes.Equal(re.Root(), want) || re.Size() != uint64(n) || !eqPath(re.AppendPath(), refAppendPath(list)) {
					once("reload-differs", n, fmt.Sprintf("tree reloaded after %d appends has root/size/append path different from the live tree (size %d)", n, re.Size()))
				}
			}
			// reload and continue: one more append on the reloaded tree
			cdb := db.clone()
			if re2, err := rmt.NewRegularMerkleTreeWithPastData(cdb); err == nil {
				if p := vlib.Catch(func() { err = re2.Append(leaf(n)) }); p != "" || err != nil {
					once("reload-continue", n, fmt.Sprintf("append on the tree reloaded at size %d fails: %v %s", n, err, p))
				} else if !bytes.Equal(re2.Root(), ref.RMTRoot(append(append([][]byte{}, list...), leaf(n)))) {
					once("reload-continue-root", n, fmt.Sprintf("append on the tree reloaded at size %d gives a wrong root", n))
				}
			}
		}
		// prediction from the append path
		next := append(append([][]byte{}, list...), leaf(n))
		var pred *rmt.RootWithAppendPath
		if p := vlib.Catch(func() { pred = rmt.CalculateRootFromAppendPath(leaf(n), refAppendPath(list), uint64(n)) }); p != "" {
			once("predict-panic", n, fmt.Sprintf("CalculateRootFromAppendPath panics at size %d: %s", n, p))
		} else {
			if !bytes.Equal(pred.Root, ref.RMTRoot(next)) || pred.Size != uint64(n+1) {
				once("predict-root", n, fmt.Sprintf("CalculateRootFromAppendPath at size %d predicts a wrong root or size", n))
			}
			if !eqPath(pred.AppendPath, refAppendPath(next)) {
				once("predict-append-path", n, fmt.Sprintf("CalculateRootFromAppendPath at size %d predicts a wrong append path", n))
			}
		}
		// right witnesses at every position
		if n <= 70 || n%17 == 0 {
			for idx := 0; idx <= n; idx++ {
				evals++
				var wit [][]byte
				var err error
				if p := vlib.Catch(func() { wit, err = tree.GenerateRightWitness(uint64(idx)) }); p != "" {
					once("witness-panic", n, fmt.Sprintf("GenerateRightWitness(%d) on %d leaves panics: %s", idx, n, p))
					continue
				}
				if err != nil {
					once("witness-error", n, fmt.Sprintf("GenerateRightWitness(%d) on %d leaves: %v", idx, n, err))
					continue
				}
				if n == 0 {
					continue
				}
				ok := false
				if p := vlib.Catch(func() { ok = rmt.VerifyRightWitness(uint64(idx), refAppendPath(list[:idx]), wit, want) }); p != "" {
					once("witness-verify-panic", n, fmt.Sprintf("VerifyRightWitness(%d) on %d leaves panics: %s", idx, n, p))
				} else if !ok {
					once("witness-verify", n, fmt.Sprintf("right witness at position %d of %d leaves does not reconstruct the root", idx, n))
				} else if idx > 0 && idx < n {
					nontrivial++
					other := append([]byte{}, want...)
					other[0] ^= 1
					if rmt.VerifyRightWitness(uint64(idx), refAppendPath(list[:idx]), wit, other) {
						once("witness-other-root", n, "right witness verifies against a different root")
					}
				}
			}
		}
		if p := vlib.Catch(func() {
			if err := tree.Append(leaf(n)); err != nil {
				once("append-error", n, fmt.Sprintf("Append #%d fails: %v", n, err))
			}
		}); p != "" {
			once("append-panic", n, "Append panics: "+p)
		}
		list = append(list, leaf(n))
	}
	r.Add("lengths_checked", int64(N+1))

	// 4-5: proofs and updates for every subset
	var proofs, tampered, updates int64
	for n := 1; n <= S; n++ {
		db := newMem()
		tree := rmt.NewRegularMerkleTree(db)
		list := [][]byte{}
		hashes := [][]byte{}
		for i := 0; i < n; i++ {
			_ = tree.Append(leaf(i))
			list = append(list, leaf(i))
			hashes = append(hashes, ref.RMTLeaf(leaf(i)))
		}
		root := ref.RMTRoot(list)
		for mask := uint64(1); mask < 1<<uint(n); mask++ {
			if r.Expired() {
				r.Cap(fmt.Sprintf("deadline in subsets n=%d", n))
				break
			}
			q := [][]byte{}
			pos := []int{}
			for i := 0; i < n; i++ {
				if mask>>uint(i)&1 == 1 {
					q = append(q, hashes[i])
					pos = append(pos, i)
				}
			}
			evals++
			proofs++
			c := caseT{N: n, Subset: mask, What: "proof"}
			var proof *rmt.Proof
			var err error
			if p := vlib.Catch(func() { proof, err = tree.GenerateProof(q) }); p != "" || err != nil {
				once("proof-generate", n, fmt.Sprintf("GenerateProof(n=%d subset=%b): %v %s", n, mask, err, p))
				continue
			}
			ok := false
			if p := vlib.Catch(func() { ok = rmt.VerifyProof(q, proof, root) }); p != "" || !ok {
				viol(fmt.Sprintf("proof-verify:n=%d", n), fmt.Sprintf("own proof does not verify (n=%d subset=%b) %s", n, mask, p), c)
				continue
			}
			nontrivial++
			// soundness: any other leaf data, sibling or root must fail
			for j := range q {
				tq := append([][]byte{}, q...)
				tq[j] = ref.RMTLeaf([]byte("other data"))
				tampered++
				if acc := false; vlib.Catch(func() { acc = rmt.VerifyProof(tq, proof, root) }) == "" && acc {
					viol(fmt.Sprintf("proof-accepts-other-leaf:n=%d", n), fmt.Sprintf("proof verifies for different leaf data (n=%d subset=%b query %d)", n, mask, j), c)
				}
			}
			for j := range proof.SiblingHashes {
				tp := &rmt.Proof{Size: proof.Size, Idxs: proof.Idxs, SiblingHashes: append([][]byte{}, proof.SiblingHashes...)}
				x := append([]byte{}, tp.SiblingHashes[j]...)
				x[3] ^= 0x10
				tp.SiblingHashes[j] = x
				tampered++
				if acc := false; vlib.Catch(func() { acc = rmt.VerifyProof(q, tp, root) }) == "" && acc {
					viol(fmt.Sprintf("proof-accepts-other-sibling:n=%d", n), fmt.Sprintf("proof verifies with an altered sibling hash (n=%d subset=%b)", n, mask), c)
				}
			}
			// a foreign leaf smuggled in under a repeated index: the index of query j is listed twice, once with the member
			// and once with foreign data (either order); sibling hashes as generated, with one of them repeated, or all
			// of them repeated (what a second walk up the same path would consume). No such proof may verify.
			for j := range q {
				for order := 0; order < 2; order++ {
					tq := [][]byte{}
					ti := []uint64{}
					for x := range q {
						if x == j {
							pair := [][]byte{ref.RMTLeaf([]byte("other data")), q[x]}
							if order == 1 {
								pair[0], pair[1] = pair[1], pair[0]
							}
							tq = append(tq, pair...)
							ti = append(ti, proof.Idxs[x], proof.Idxs[x])
							continue
						}
						tq = append(tq, q[x])
						ti = append(ti, proof.Idxs[x])
					}
					sibVariants := [][][]byte{proof.SiblingHashes}
					for d := range proof.SiblingHashes {
						v := append([][]byte{}, proof.SiblingHashes[:d+1]...)
						v = append(v, proof.SiblingHashes[d])
						v = append(v, proof.SiblingHashes[d+1:]...)
						sibVariants = append(sibVariants, v)
					}
					dbl := [][]byte{}
					for _, sh := range proof.SiblingHashes {
						dbl = append(dbl, sh, sh)
					}
					sibVariants = append(sibVariants, dbl, append(append([][]byte{}, proof.SiblingHashes...), proof.SiblingHashes...))
					for _, sv := range sibVariants {
						tp := &rmt.Proof{Size: proof.Size, Idxs: ti, SiblingHashes: sv}
						tampered++
						if acc := false; vlib.Catch(func() { acc = rmt.VerifyProof(tq, tp, root) }) == "" && acc {
							viol("proof-accepts-foreign-leaf-under-repeated-index", fmt.Sprintf("proof verifies for a query list that names foreign data at the index of leaf %d (n=%d subset=%b, index listed twice, foreign %s, %d sibling hashes instead of %d)", pos[j], n, mask, map[int]string{0: "first", 1: "second"}[order], len(sv), len(proof.SiblingHashes)), c)
						}
					}
				}
			}
			{
				oroot := append([]byte{}, root...)
				oroot[31] ^= 1
				tampered++
				if rmt.VerifyProof(q, proof, oroot) {
					viol(fmt.Sprintf("proof-accepts-other-root:n=%d", n), "proof verifies against a different root", c)
				}
			}
			// updates through the proof
			if n <= U {
				updates++
				nd := [][]byte{}
				mod := append([][]byte{}, list...)
				for _, p := range pos {
					v := []byte(fmt.Sprintf("updated-%d", p))
					nd = append(nd, v)
					mod[p] = v
				}
				wantRoot := ref.RMTRoot(mod)
				var got []byte
				if p := vlib.Catch(func() { got, err = rmt.CalculateRootFromUpdateData(nd, proof) }); p != "" || err != nil || !bytes.Equal(got, wantRoot) {
					viol(fmt.Sprintf("update-root-from-proof:n=%d", n), fmt.Sprintf("CalculateRootFromUpdateData (n=%d subset=%b) != root of the modified list: %v %s", n, mask, err, p), c)
				}
				cdb := db.clone()
				t2, err := rmt.NewRegularMerkleTreeWithPastData(cdb)
				if err != nil {
					// reload defect is reported above; rebuild instead
					t2 = rmt.NewRegularMerkleTree(cdb)
					cdb.m = map[string][]byte{}
					for i := 0; i < n; i++ {
						_ = t2.Append(leaf(i))
					}
				}
				if p := vlib.Catch(func() { err = t2.Update(proof.Idxs, nd) }); p != "" || err != nil || !bytes.Equal(t2.Root(), wantRoot) {
					viol(fmt.Sprintf("update-tree:n=%d", n), fmt.Sprintf("Update (n=%d subset=%b) does not yield the root of the modified list: %v %s", n, mask, err, p), c)
				} else {
					// the updated tree reloaded from storage is the updated tree, and it continues identically
					var re *rmt.RegularMerkleTree
					var rerr error
					if p := vlib.Catch(func() { re, rerr = rmt.NewRegularMerkleTreeWithPastData(cdb.clone()) }); p != "" || rerr != nil {
						viol("reload-after-update-fails", fmt.Sprintf("reloading the tree after Update (n=%d subset=%b) fails: %v %s", n, mask, rerr, p), c)
					} else if !bytes.Equal(re.Root(), wantRoot) || re.Size() != uint64(n) {
						viol("reload-after-update-differs", fmt.Sprintf("tree reloaded after Update (n=%d subset=%b) does not have the root of the modified list", n, mask), c)
					} else {
						extra := []byte("appended-after-update")
						if p := vlib.Catch(func() { rerr = re.Append(extra) }); p != "" || rerr != nil || !bytes.Equal(re.Root(), ref.RMTRoot(append(append([][]byte{}, mod...), extra))) {
							viol("reload-after-update-continue", fmt.Sprintf("append on the tree reloaded after Update (n=%d subset=%b) gives a wrong root: %v %s", n, mask, rerr, p), c)
						} else {
							// the nodes stored by Update and the following Append still answer proofs for every leaf
							final := append(append([][]byte{}, mod...), extra)
							for li, lv := range final {
								var pf *rmt.Proof
								var perr error
								q := [][]byte{ref.RMTLeaf(lv)}
								if p := vlib.Catch(func() { pf, perr = re.GenerateProof(q) }); p != "" || perr != nil {
									viol("proof-after-update-append-fails", fmt.Sprintf("GenerateProof for leaf %d after Update (n=%d subset=%b) and one Append fails: %v %s", li, n, mask, perr, p), c)
									break
								}
								if !rmt.VerifyProof(q, pf, re.Root()) {
									viol("proof-after-update-append-invalid", fmt.Sprintf("proof for leaf %d generated after Update (n=%d subset=%b) and one Append does not verify against the tree's root", li, n, mask), c)
									break
								}
							}
						}
					}
				}
			}
		}
	}
	r.Add("proofs_generated_and_verified", proofs)
	r.Add("tampered_proofs_checked", tampered)
	r.Add("updates_checked", updates)
	r.Set("evaluations", evals+tampered)
	r.Set("distinct_nontrivial", nontrivial)
	r.Set("rule", fmt.Sprintf("every list length 0..%d (root, batch root, size, append path, reload, reload+append, prediction from the append path), right witnesses at every position for n<=70 and every 17th n, every non-empty leaf subset for n<=%d (proof verifies; every single altered query hash / sibling / root fails, and so does every proof that lists a queried index twice with foreign data beside the member, with the generated, singly-repeated and doubled sibling lists), updates through every subset for n<=%d; distinct by construction; non-trivial = n>0 / interior witness positions / verified proofs", N, S, U))
	r.Sample(caseT{N: 5, Subset: 0b10110, What: "proof for leaves {1,2,4} of 5, each query hash / sibling / root altered in turn"})
	r.Sample(caseT{N: 37, What: "root, append path, reload, prediction, all 38 witness positions"})
	r.Finish()
}
