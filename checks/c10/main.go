// C10: sparse Merkle trie — the root commits to exactly the map (LIP-0039), proofs are complete and sound.
// E1: all maps over small adversarial key universes, all update batches between them (root oracle);
// E4: all query sets and all single-field tamperings of their proofs (soundness oracle).
package main

import (
	"bytes"
	"fmt"
	"os"
	"sort"
	"sync"
	"time"

	"github.com/LiskHQ/lisk-engine/pkg/codec"
	"github.com/LiskHQ/lisk-engine/pkg/trie/smt"

	"verif/ref"
	"verif/vlib"
)

// memDB is the node store handed to the trie. Update writes to it from several goroutines at once (the engine's
// own store, db.Batch, is mutex protected), so it locks.
type memDB struct {
	mu sync.Mutex
	m  map[string][]byte
}

func newMem() *memDB { return &memDB{m: map[string][]byte{}} }
func (d *memDB) Get(k []byte) ([]byte, bool) {
	d.mu.Lock()
	defer d.mu.Unlock()
	v, ok := d.m[string(k)]
	if !ok {
		return nil, false
	}
	return append([]byte{}, v...), true
}
func (d *memDB) Set(k, v []byte) {
	d.mu.Lock()
	defer d.mu.Unlock()
	d.m[string(k)] = append([]byte{}, v...)
}
func (d *memDB) Del(k []byte) {
	d.mu.Lock()
	defer d.mu.Unlock()
	delete(d.m, string(k))
}
func (d *memDB) clone() *memDB {
	d.mu.Lock()
	defer d.mu.Unlock()
	c := newMem()
	for k, v := range d.m {
		c.m[k] = v
	}
	return c
}

type universe struct {
	name   string
	keyLen int
	keys   [][]byte // keys that may be stored
	probes [][]byte // extra keys only ever queried
}

func key(n int, set ...int) []byte { // n-byte zero key with the given bit positions set
	k := make([]byte, n)
	for _, b := range set {
		k[b/8] |= 1 << (7 - uint(b%8))
	}
	return k
}

func universes() []universe {
	return []universe{
		{"k1", 1, [][]byte{{0x00}, {0x01}, {0x80}, {0x81}, {0xFF}}, [][]byte{{0x02}, {0xC0}}},
		{"k2", 2, [][]byte{key(2), key(2, 15), key(2, 8), key(2, 7), key(2, 0), {0xFF, 0xFF}}, [][]byte{key(2, 14), key(2, 1, 9)}},
		{"k12", 12, [][]byte{key(12), key(12, 95), key(12, 16), key(12, 15), key(12, 9), key(12, 0)}, [][]byte{key(12, 94), key(12, 17)}},
		{"k38", 38, [][]byte{key(38), key(38, 303), key(38, 16), key(38, 15), key(38, 9), key(38, 0, 303)}, [][]byte{key(38, 302), key(38, 8)}},
	}
}

var vals = [][]byte{nil, bytes.Repeat([]byte{0x11}, 32), bytes.Repeat([]byte{0x22}, 32)}

type state struct {
	assign []int // per universe key: 0 absent, 1 v1, 2 v2
	db     *memDB
	root   []byte
}

func mapOf(u universe, assign []int) map[string][]byte {
	m := map[string][]byte{}
	for i, a := range assign {
		if a != 0 {
			m[string(u.keys[i])] = vals[a]
		}
	}
	return m
}

func code(assign []int) int {
	c := 0
	for _, a := range assign {
		c = c*3 + a
	}
	return c
}

type batchT struct {
	Idx []int `json:"keys"`
	Act []int `json:"actions"` // 0 delete, 1 set v1, 2 set v2
}

func batches(n, maxLen int, perms bool) []batchT {
	out := []batchT{}
	var rec func(start int, cur batchT)
	rec = func(start int, cur batchT) {
		if len(cur.Idx) > 0 {
			out = append(out, batchT{append([]int{}, cur.Idx...), append([]int{}, cur.Act...)})
			if len(cur.Idx) > 1 {
				// reversed order of the same batch
				rv := batchT{}
				for i := len(cur.Idx) - 1; i >= 0; i-- {
					rv.Idx = append(rv.Idx, cur.Idx[i])
					rv.Act = append(rv.Act, cur.Act[i])
				}
				out = append(out, rv)
				if perms && len(cur.Idx) == 3 {
					for _, p := range [][3]int{{0, 2, 1}, {1, 0, 2}, {1, 2, 0}, {2, 0, 1}} {
						pm := batchT{}
						for _, j := range p {
							pm.Idx = append(pm.Idx, cur.Idx[j])
							pm.Act = append(pm.Act, cur.Act[j])
						}
						out = append(out, pm)
					}
				}
			}
		}
		if len(cur.Idx) == maxLen {
			return
		}
		for i := start; i < n; i++ {
			for a := 0; a < 3; a++ {
				rec(i+1, batchT{append(append([]int{}, cur.Idx...), i), append(append([]int{}, cur.Act...), a)})
			}
		}
	}
	rec(0, batchT{})
	return out
}

type caseT struct {
	Universe string  `json:"universe"`
	Subtree  int     `json:"subtreeHeight"`
	Assign   []int   `json:"map"`
	Batch    *batchT `json:"batch,omitempty"`
	Query    []int   `json:"query,omitempty"`
	Tamper   string  `json:"tamper,omitempty"`
}

// claimsAgree: does what an accepted proof claims agree with the map?
func claimsAgree(m map[string][]byte, q [][]byte, p *smt.Proof) (bool, string) {
	for i, k := range q {
		qp := p.Queries[i]
		stored, present := m[string(k)]
		if bytes.Equal(qp.Key, k) {
			if len(qp.Value) != 0 {
				if !present || !bytes.Equal(stored, qp.Value) {
					return false, fmt.Sprintf("claims key %x has value %x", k, []byte(qp.Value)[:2])
				}
			} else if present {
				return false, fmt.Sprintf("claims key %x is absent", k)
			}
		} else {
			if present {
				return false, fmt.Sprintf("claims key %x is absent (other leaf in the way)", k)
			}
			if s2, ok := m[string(qp.Key)]; len(qp.Value) != 0 && (!ok || !bytes.Equal(s2, qp.Value)) {
				return false, fmt.Sprintf("uses a leaf %x that is not in the map", []byte(qp.Key))
			}
		}
	}
	return true, ""
}

func cloneProof(p *smt.Proof) *smt.Proof {
	c := &smt.Proof{}
	for _, s := range p.SiblingHashes {
		c.SiblingHashes = append(c.SiblingHashes, append(codec.Hex{}, s...))
	}
	for _, q := range p.Queries {
		c.Queries = append(c.Queries, &smt.QueryProof{Key: append(codec.Hex{}, q.Key...), Value: append(codec.Hex{}, q.Value...), Bitmap: append(codec.Hex{}, q.Bitmap...)})
	}
	return c
}

type tamperT struct {
	name string
	q    [][]byte
	p    *smt.Proof
	root []byte
}

func tamperings(u universe, q [][]byte, p *smt.Proof, root []byte) []tamperT {
	out := []tamperT{}
	add := func(name string, f func(tq [][]byte, tp *smt.Proof, troot *[]byte) [][]byte) {
		tq := append([][]byte{}, q...)
		tp := cloneProof(p)
		tr := append([]byte{}, root...)
		if nq := f(tq, tp, &tr); nq != nil {
			tq = nq
		}
		out = append(out, tamperT{name, tq, tp, tr})
	}
	for i := range p.Queries {
		i := i
		add(fmt.Sprintf("q%d-value-v1", i), func(tq [][]byte, tp *smt.Proof, _ *[]byte) [][]byte { tp.Queries[i].Value = vals[1]; return nil })
		add(fmt.Sprintf("q%d-value-v2", i), func(tq [][]byte, tp *smt.Proof, _ *[]byte) [][]byte { tp.Queries[i].Value = vals[2]; return nil })
		add(fmt.Sprintf("q%d-value-empty", i), func(tq [][]byte, tp *smt.Proof, _ *[]byte) [][]byte { tp.Queries[i].Value = codec.Hex{}; return nil })
		alt := [][]byte{u.keys[0], u.keys[1], u.keys[len(u.keys)-1], u.probes[0]}
		for j, ok := range alt {
			j, ok := j, ok
			add(fmt.Sprintf("q%d-proofkey-%d", i, j), func(tq [][]byte, tp *smt.Proof, _ *[]byte) [][]byte { tp.Queries[i].Key = ok; return nil })
			add(fmt.Sprintf("q%d-querykey-%d", i, j), func(tq [][]byte, tp *smt.Proof, _ *[]byte) [][]byte { tq[i] = ok; return nil })
		}
		for b := 0; b < len(p.Queries[i].Bitmap)*8; b++ {
			b := b
			add(fmt.Sprintf("q%d-bitmap-flip%d", i, b), func(tq [][]byte, tp *smt.Proof, _ *[]byte) [][]byte {
				tp.Queries[i].Bitmap[b/8] ^= 1 << uint(b%8)
				return nil
			})
		}
		add(fmt.Sprintf("q%d-bitmap-extra-byte", i), func(tq [][]byte, tp *smt.Proof, _ *[]byte) [][]byte {
			tp.Queries[i].Bitmap = append(codec.Hex{1}, tp.Queries[i].Bitmap...)
			return nil
		})
		add(fmt.Sprintf("q%d-bitmap-empty", i), func(tq [][]byte, tp *smt.Proof, _ *[]byte) [][]byte { tp.Queries[i].Bitmap = codec.Hex{}; return nil })
	}
	for s := range p.SiblingHashes {
		s := s
		add(fmt.Sprintf("sibling%d-altered", s), func(tq [][]byte, tp *smt.Proof, _ *[]byte) [][]byte { tp.SiblingHashes[s][7] ^= 0x40; return nil })
		add(fmt.Sprintf("sibling%d-dropped", s), func(tq [][]byte, tp *smt.Proof, _ *[]byte) [][]byte {
			tp.SiblingHashes = append(tp.SiblingHashes[:s], tp.SiblingHashes[s+1:]...)
			return nil
		})
	}
	add("sibling-added", func(tq [][]byte, tp *smt.Proof, _ *[]byte) [][]byte {
		tp.SiblingHashes = append(tp.SiblingHashes, bytes.Repeat([]byte{0x5a}, 32))
		return nil
	})
	add("sibling-empty-hash-added", func(tq [][]byte, tp *smt.Proof, _ *[]byte) [][]byte {
		tp.SiblingHashes = append(tp.SiblingHashes, ref.EmptyHash)
		return nil
	})
	if len(p.SiblingHashes) >= 2 {
		add("siblings-swapped", func(tq [][]byte, tp *smt.Proof, _ *[]byte) [][]byte {
			tp.SiblingHashes[0], tp.SiblingHashes[1] = tp.SiblingHashes[1], tp.SiblingHashes[0]
			return nil
		})
	}
	// composite forgeries: the honest proof plus one more query that claims something about another key, placed on a
	// path of its own choosing (bitmap) and backed by made-up sibling hashes. The verifier must not ignore it.
	all := append(append([][]byte{}, u.keys...), u.probes...)
	for ki, fk := range all {
		for vi, fv := range [][]byte{vals[1], {}} {
			for _, bm := range [][]byte{{0x01}, {0x03}, {0x80}} {
				ki, fk, vi, fv, bm := ki, fk, vi, fv, bm
				add(fmt.Sprintf("forged-extra-query-key%d-val%d-bitmap%x", ki, vi, bm), func(tq [][]byte, tp *smt.Proof, _ *[]byte) [][]byte {
					tp.Queries = append(tp.Queries, &smt.QueryProof{Key: append(codec.Hex{}, fk...), Value: append(codec.Hex{}, fv...), Bitmap: append(codec.Hex{}, bm...)})
					for j := 0; j < 8; j++ {
						tp.SiblingHashes = append(tp.SiblingHashes, bytes.Repeat([]byte{0x60 + byte(j)}, 32))
					}
					return append(tq, fk)
				})
			}
		}
	}
	add("other-root", func(tq [][]byte, tp *smt.Proof, r *[]byte) [][]byte { (*r)[0] ^= 1; return nil })
	add("empty-root", func(tq [][]byte, tp *smt.Proof, r *[]byte) [][]byte {
		*r = append([]byte{}, ref.EmptyHash...)
		return nil
	})
	if len(q) >= 2 {
		add("queries-reordered", func(tq [][]byte, tp *smt.Proof, _ *[]byte) [][]byte { tq[0], tq[1] = tq[1], tq[0]; return nil })
		add("proof-queries-reordered", func(tq [][]byte, tp *smt.Proof, _ *[]byte) [][]byte {
			tp.Queries[0], tp.Queries[1] = tp.Queries[1], tp.Queries[0]
			return nil
		})
		add("query-dropped", func(tq [][]byte, tp *smt.Proof, _ *[]byte) [][]byte { return tq[:len(tq)-1] })
	}
	return out
}

func main() {
	r := vlib.Start("C10", "model_checking", 4*time.Minute, 20*time.Minute)
	r.Assume("duplicate keys inside one update batch are unspecified and left out; stored values are 32 bytes (hash sized) as every persistent caller supplies")
	r.Assume("fork-join order inside smt.Update / Prove (errgroup) is not enumerated; the oracle is order independent")
	maxBatch, maxQ := 2, 2
	if r.Thorough() {
		maxBatch, maxQ = 3, 3
	}
	type job struct {
		u    universe
		sh   int
		part int
	}
	const parts = 4
	jobs := []job{}
	for _, u := range universes() {
		if !r.Thorough() && u.keyLen >= 12 {
			u.keys = u.keys[:4] // quick tier: 81 maps for the long-key universes (an update there costs milliseconds)
		}
		for _, sh := range subtreeHeights() {
			if !r.Thorough() && u.keyLen >= 12 && sh != 8 {
				continue
			}
			for p := 0; p < parts; p++ {
				jobs = append(jobs, job{u, sh, p})
			}
		}
	}
	// two sharded phases: a worker process re-runs main() and serves the first sharded call it reaches, so the parent
	// names the phase (the dense part runs in a worker too: a crash inside the trie's own goroutines must not
	// take the reporting process down)
	phase := os.Getenv("VERIF_PHASE")
	if inWorkerProc() && phase == "dense" {
		jobs = nil
	}
	os.Setenv("VERIF_PHASE", "search")
	if !(inWorkerProc() && phase == "dense") {
		r.RunSharded(len(jobs), func(ji int) {
			u, sh, part := jobs[ji].u, jobs[ji].sh, jobs[ji].part
			if r.Only != "" && r.Only != u.name {
				return
			}
			n := len(u.keys)
			bs := batches(n, maxBatch, r.Thorough())
			newTrie := func(root []byte) interface {
				Update(db smt.DBReadWriter, keys [][]byte, values [][]byte) ([]byte, error)
				Prove(db smt.DBReader, queryKeys [][]byte) (*smt.Proof, error)
			} {
				t := smt.NewTrie(root, u.keyLen)
				t.SetSubtreeHeight(uint8(sh))
				return t
			}
			start := &state{assign: make([]int, n), db: newMem(), root: ref.EmptyHash}
			seen := map[int]*state{code(start.assign): start}
			queue := []*state{start}
			// ---- roots over all update histories (BFS over maps) ----
			for len(queue) > 0 {
				if r.Expired() {
					r.Cap("deadline in root search " + u.name)
					break
				}
				s := queue[0]
				queue = queue[1:]
				for bi := range bs {
					b := bs[bi]
					na := append([]int{}, s.assign...)
					ks, vs := [][]byte{}, [][]byte{}
					for j, idx := range b.Idx {
						na[idx] = b.Act[j]
						ks = append(ks, u.keys[idx])
						v := vals[b.Act[j]]
						if v == nil {
							v = []byte{}
						}
						vs = append(vs, v)
					}
					db := s.db.clone()
					t := newTrie(s.root) // reopened from the stored nodes at the latest root
					var root []byte
					var err error
					c := caseT{u.name, sh, s.assign, &b, nil, ""}
					if p := vlib.Catch(func() { root, err = t.Update(db, ks, vs) }); p != "" || err != nil {
						r.Violation(fmt.Sprintf("update-fails:%s:sh%d", u.name, sh), fmt.Sprintf("Update fails on map %v batch %+v: %v %s", s.assign, b, err, p), c)
						continue
					}
					if bi%parts == part {
						r.Add("transitions", 1) // every part replays the whole search; each counts its own share
					}
					want := ref.SMTRoot(mapOf(u, na))
					if !bytes.Equal(root, want) {
						r.Violation(fmt.Sprintf("root-differs:%s:sh%d", u.name, sh), fmt.Sprintf("root after batch %+v on map %v is not the LIP-0039 root of the resulting map %v", b, s.assign, na), c)
						continue
					}
					// the nodes stored by this very update (not only by the first update that reached the map) must be a
					// complete trie: reopened at the new root it answers every key of the universe with a verifying proof
					if bi%parts == part {
						t2 := newTrie(root)
						var proof *smt.Proof
						var perr error
						if p := vlib.Catch(func() { proof, perr = t2.Prove(db, u.keys) }); p != "" || perr != nil {
							r.Violation(fmt.Sprintf("stored-nodes-incomplete:%s:sh%d", u.name, sh), fmt.Sprintf("after batch %+v on map %v the trie reopened at the new root cannot prove the universe: %v %s", b, s.assign, perr, p), c)
							continue
						}
						if ok, verr := smt.Verify(u.keys, proof, root, u.keyLen); !ok || verr != nil {
							r.Violation(fmt.Sprintf("stored-nodes-proof-invalid:%s:sh%d", u.name, sh), fmt.Sprintf("after batch %+v on map %v the proof generated from the stored nodes does not verify: %v", b, s.assign, verr), c)
							continue
						}
						r.Add("post_update_reopen_proofs", 1)
					}
					if _, ok := seen[code(na)]; !ok {
						ns := &state{assign: na, db: db, root: root}
						seen[code(na)] = ns
						queue = append(queue, ns)
					}
				}
			}
			if part == 0 {
				r.Add("states", int64(len(seen)))
			}
			// empty map => empty hash (reached again after deleting everything): covered by root oracle since ref gives EmptyHash
			// ---- proofs: every map x every query set x every tampering ----
			all := append(append([][]byte{}, u.keys...), u.probes...)
			qsets := [][]int{}
			var rec func(start int, cur []int)
			rec = func(start int, cur []int) {
				if len(cur) > 0 {
					qsets = append(qsets, append([]int{}, cur...))
				}
				if len(cur) == maxQ {
					return
				}
				for i := start; i < len(all); i++ {
					rec(i+1, append(cur, i))
				}
			}
			rec(0, nil)
			for i := range all {
				qsets = append(qsets, []int{i, i}) // duplicate query
			}
			codes := []int{}
			for c := range seen {
				codes = append(codes, c)
			}
			sort.Ints(codes)
			for ci, cd := range codes {
				if ci%parts != part {
					continue
				}
				if r.Expired() {
					r.Cap("deadline in proof enumeration " + u.name)
					break
				}
				s := seen[cd]
				m := mapOf(u, s.assign)
				for _, qs := range qsets {
					q := [][]byte{}
					for _, i := range qs {
						q = append(q, all[i])
					}
					c := caseT{u.name, sh, s.assign, nil, qs, ""}
					t := newTrie(s.root)
					var proof *smt.Proof
					var err error
					if p := vlib.Catch(func() { proof, err = t.Prove(s.db, q) }); p != "" || err != nil {
						r.Violation(fmt.Sprintf("prove-fails:%s:sh%d", u.name, sh), fmt.Sprintf("Prove(%v) on map %v fails: %v %s", qs, s.assign, err, p), c)
						continue
					}
					r.Add("proofs", 1)
					ok := false
					if p := vlib.Catch(func() { ok, err = smt.Verify(q, proof, s.root, u.keyLen) }); p != "" || !ok {
						r.Violation(fmt.Sprintf("own-proof-rejected:%s:sh%d", u.name, sh), fmt.Sprintf("Verify(Prove(%v)) on map %v = %v %v %s", qs, s.assign, ok, err, p), c)
						continue
					}
					if agree, why := claimsAgree(m, q, proof); !agree {
						r.Violation(fmt.Sprintf("own-proof-wrong-claim:%s:sh%d", u.name, sh), fmt.Sprintf("Prove(%v) on map %v %s", qs, s.assign, why), c)
					}
					for _, tm := range tamperings(u, q, proof, s.root) {
						r.Add("tampered_proofs", 1)
						acc := false
						pn := vlib.Catch(func() { acc, _ = smt.Verify(tm.q, tm.p, tm.root, u.keyLen) })
						if pn != "" {
							r.Add("tampered_proofs_panicking", 1) // crash-freedom is C09's oracle; counted here
							continue
						}
						if !acc {
							continue
						}
						r.Add("tampered_proofs_still_accepted", 1)
						c.Tamper = tm.name
						if !bytes.Equal(tm.root, s.root) {
							r.Violation(fmt.Sprintf("accepted-against-other-root:%s", u.name), fmt.Sprintf("tampering %s of Prove(%v) on map %v verifies against a different root", tm.name, qs, s.assign), c)
							continue
						}
						if len(tm.q) != len(tm.p.Queries) {
							r.Violation(fmt.Sprintf("accepted-length-mismatch:%s", u.name), "accepted although the number of queries differs", c)
							continue
						}
						if agree, why := claimsAgree(m, tm.q, tm.p); !agree {
							r.Violation(fmt.Sprintf("unsound-proof-accepted:%s:%s", u.name, tamperClass(tm.name)), fmt.Sprintf("tampering %s of Prove(%v) on map %v is accepted and %s", tm.name, qs, s.assign, why), c)
						}
					}
				}
			}
			if part == 0 {
				r.Sample(caseT{u.name, sh, seen[codes[len(codes)/2]].assign, &bs[len(bs)/2], qsets[len(qsets)/2], "every tampering"})
			}
		})
		r.Set("traces_validated_against_impl", r.Get("transitions")+r.Get("proofs")+r.Get("tampered_proofs"))
	}
	if r.Only == "" {
		os.Setenv("VERIF_PHASE", "dense")
		r.RunSharded(1, func(int) { densePart(r) })
	}
	r.Set("explanation", "states = all maps over 4 adversarial key universes x 2 subtree heights reached by BFS; transitions = real trie.Update calls (every batch of <=2/3 keys incl. reversed/permuted orders) on a trie reopened from its stored nodes, root compared with the recursive LIP-0039 root; then for every map every query set and every single-field tampering through smt.Verify with the soundness oracle")
	r.Finish()
}

func tamperClass(n string) string {
	for i := 0; i < len(n); i++ {
		if n[i] == '-' {
			rest := n[i+1:]
			for j := 0; j < len(rest); j++ {
				if rest[j] >= '0' && rest[j] <= '9' {
					return rest[:j]
				}
			}
			return rest
		}
	}
	return n
}

func subtreeHeights() []int {
	if os.Getenv("C10_SH") == "8" {
		return []int{8}
	}
	if os.Getenv("C10_SH") == "4" {
		return []int{4}
	}
	return []int{8, 4}
}

func inWorkerProc() bool { return os.Getenv("VERIF_WORKER") != "" }

// densePart: fully and almost fully populated subtrees. Two keys under each of the first N values of the first key
// byte (N = 1, 2, 255, 256): with the default subtree height 8 the top subtree then has N stubs, 256 being the
// largest number of nodes a stored subtree can hold. Roots against the reference, then the trie is reopened and
// must prove and update correctly.
func densePart(r *vlib.Run) {
	for _, sh := range subtreeHeights() {
		for _, n := range []int{1, 2, 255, 256} {
			c := caseT{Universe: fmt.Sprintf("dense-%d", n), Subtree: sh}
			m := map[string][]byte{}
			keys, vs := [][]byte{}, [][]byte{}
			for b := 0; b < n; b++ {
				for _, lo := range []byte{0x00, 0x80} {
					k := []byte{byte(b), lo}
					keys = append(keys, k)
					vs = append(vs, vals[1])
					m[string(k)] = vals[1]
				}
			}
			db := newMem()
			t := smt.NewTrie(nil, 2)
			t.SetSubtreeHeight(uint8(sh))
			var root []byte
			var err error
			if p := vlib.Catch(func() { root, err = t.Update(db, keys, vs) }); p != "" || err != nil {
				r.Violation(fmt.Sprintf("dense-update-fails:sh%d", sh), fmt.Sprintf("Update of %d keys (two under each of %d first bytes) fails: %v %s", len(keys), n, err, p), c)
				continue
			}
			r.Add("transitions", 1)
			if !bytes.Equal(root, ref.SMTRoot(m)) {
				r.Violation(fmt.Sprintf("dense-root-differs:sh%d", sh), fmt.Sprintf("root of %d keys (two under each of %d first bytes) is not the LIP-0039 root", len(keys), n), c)
				continue
			}
			// reopen: prove present and absent keys, then change one key and delete another
			t2 := smt.NewTrie(root, 2)
			t2.SetSubtreeHeight(uint8(sh))
			q := [][]byte{{0, 0x00}, {byte(n - 1), 0x80}, {byte(n - 1), 0x40}, {0xff, 0xff}}
			var proof *smt.Proof
			if p := vlib.Catch(func() { proof, err = t2.Prove(db, q) }); p != "" || err != nil {
				r.Violation(fmt.Sprintf("dense-reopen-prove-fails:sh%d", sh), fmt.Sprintf("a trie of %d keys (two under each of %d first bytes) reopened from its stored nodes cannot prove: %v %s", len(keys), n, err, p), c)
				continue
			}
			if ok, verr := smt.Verify(q, proof, root, 2); !ok || verr != nil {
				r.Violation(fmt.Sprintf("dense-reopen-proof-invalid:sh%d", sh), fmt.Sprintf("proof from the reopened dense trie (%d first bytes) does not verify: %v", n, verr), c)
				continue
			}
			if agree, why := claimsAgree(m, q, proof); !agree {
				r.Violation(fmt.Sprintf("dense-proof-wrong-claim:sh%d", sh), why, c)
			}
			m2 := map[string][]byte{}
			for k, v := range m {
				m2[k] = v
			}
			m2[string([]byte{0, 0x00})] = vals[2]
			delete(m2, string([]byte{byte(n - 1), 0x80}))
			var root2 []byte
			if p := vlib.Catch(func() {
				root2, err = t2.Update(db, [][]byte{{0, 0x00}, {byte(n - 1), 0x80}}, [][]byte{vals[2], {}})
			}); p != "" || err != nil {
				r.Violation(fmt.Sprintf("dense-reopen-update-fails:sh%d", sh), fmt.Sprintf("updating the reopened dense trie (%d first bytes) fails: %v %s", n, err, p), c)
				continue
			}
			r.Add("transitions", 1)
			if !bytes.Equal(root2, ref.SMTRoot(m2)) {
				r.Violation(fmt.Sprintf("dense-root-differs-after-update:sh%d", sh), fmt.Sprintf("root after changing one key and deleting one in the dense trie (%d first bytes) is not the LIP-0039 root", n), c)
			}
			r.Add("dense_tries_checked", 1)
		}
	}
}
