// C19: sync picks the best peer, serves correct chain segments, converges safely.
// (a) peer selection: every sequence of <=N reported tips over a small alphabet through the real getBestNodeInfo.
// (b) RPC handlers: a real node serves a client over loopback libp2p; every request of the enumerated
//
//	universe is answered as the reference model of the server's chain says; malformed requests ban.
//
// (c) convergence: see converge.go.
package main

import (
	"bytes"
	"context"
	"fmt"
	"os"
	"sort"
	"strings"
	"time"

	"github.com/LiskHQ/lisk-engine/pkg/blockchain"
	csync "github.com/LiskHQ/lisk-engine/pkg/consensus/sync"
	"github.com/LiskHQ/lisk-engine/pkg/p2p"
	"github.com/LiskHQ/lisk-engine/pkg/verifrt/vclock"
	"github.com/libp2p/go-libp2p/core/host"
	"github.com/libp2p/go-libp2p/core/network"
	"github.com/libp2p/go-libp2p/core/peer"
	"github.com/libp2p/go-libp2p/core/protocol"
	"github.com/libp2p/go-libp2p/p2p/net/swarm"
	"verif/concrun"
	"verif/node"
	"verif/nolog"
	"verif/vlib"
)

type caseT struct {
	Part string      `json:"part"`
	Desc interface{} `json:"desc"`
}

const settle = 20 * time.Second

func waitFor(cond func() bool) bool {
	deadline := time.Now().Add(settle)
	for time.Now().Before(deadline) {
		if cond() {
			return true
		}
		time.Sleep(2 * time.Millisecond)
	}
	return cond()
}

// ---- part a: peer selection ----------------------------------------------------------------------

type tipT struct {
	MHP    uint32 `json:"mhp"`
	Height uint32 `json:"height"`
	ID     byte   `json:"id"`
}

func tipAlphabet() []tipT {
	out := []tipT{}
	for _, m := range []uint32{5, 7} {
		for _, h := range []uint32{10, 12} {
			for _, id := range []byte{1, 2, 3} {
				out = append(out, tipT{m, h, id})
			}
		}
	}
	return out
}

// acceptable returns the indexes the statement allows: largest mhp, then largest height, then most common id.
func acceptable(tips []tipT) map[int]bool {
	var maxM, maxH uint32
	for _, t := range tips {
		if t.MHP > maxM {
			maxM = t.MHP
		}
	}
	for _, t := range tips {
		if t.MHP == maxM && t.Height > maxH {
			maxH = t.Height
		}
	}
	freq := map[byte]int{}
	best := 0
	for _, t := range tips {
		if t.MHP == maxM && t.Height == maxH {
			freq[t.ID]++
			if freq[t.ID] > best {
				best = freq[t.ID]
			}
		}
	}
	ok := map[int]bool{}
	for i, t := range tips {
		if t.MHP == maxM && t.Height == maxH && freq[t.ID] == best {
			ok[i] = true
		}
	}
	return ok
}

func partA(r *vlib.Run) {
	alpha := tipAlphabet()
	maxN := 4
	reps := 6 // Go map iteration order is the only uncontrolled choice inside the selection; every input is repeated
	if r.Thorough() {
		maxN, reps = 5, 8
	}
	// sequences are enumerated by index; sharded over worker processes
	total := 0
	pow := 1
	offsets := []int{}
	for n := 1; n <= maxN; n++ {
		pow *= len(alpha)
		offsets = append(offsets, total)
		total += pow
	}
	const chunk = 4096
	nChunks := (total + chunk - 1) / chunk
	seen := map[string]bool{}
	r.RunSharded(nChunks, func(ci int) {
		for idx := ci * chunk; idx < (ci+1)*chunk && idx < total; idx++ {
			n := 1
			for n < maxN && idx >= offsets[n] {
				n++
			}
			rest := idx - offsets[n-1]
			tips := make([]tipT, n)
			for i := 0; i < n; i++ {
				tips[i] = alpha[rest%len(alpha)]
				rest /= len(alpha)
			}
			in := make([]csync.VerifTip, n)
			for i, t := range tips {
				in[i] = csync.VerifTip{Height: t.Height, MaxHeightPrevoted: t.MHP, ID: bytes.Repeat([]byte{t.ID}, 32)}
			}
			ok := acceptable(tips)
			for k := 0; k < reps; k++ {
				got, err := csync.VerifBestNodeInfo(in)
				r.Add("selections", 1)
				key := ""
				switch {
				case err != nil:
					key = "selection-error"
				case !ok[got]:
					t := tips[got]
					var maxM uint32
					for _, x := range tips {
						if x.MHP > maxM {
							maxM = x.MHP
						}
					}
					switch {
					case t.MHP != maxM:
						key = "selected-lower-maxHeightPrevoted"
					case func() bool {
						for _, x := range tips {
							if x.MHP == maxM && x.Height > t.Height {
								return true
							}
						}
						return false
					}():
						key = "selected-lower-height"
					default:
						key = "selected-less-common-block-id"
					}
				}
				if key != "" {
					if !seen[key] {
						seen[key] = true
						r.Violation(key, fmt.Sprintf("tips %v: selected index %d (%v), acceptable %v", tips, got, err, keys(ok)), caseT{"selection", tips})
					}
					break
				}
			}
			r.Add("states", 1)
			r.Add("transitions", int64(n))
		}
	})
	if !inWorker() {
		if _, err := csync.VerifBestNodeInfo(nil); err == nil {
			r.Violation("selection-empty-no-error", "no peers: selection returned no error", caseT{"selection", []tipT{}})
		}
	}
}

func keys(m map[int]bool) []int {
	out := []int{}
	for k := range m {
		out = append(out, k)
	}
	sort.Ints(out)
	return out
}

// ---- loopback plumbing -----------------------------------------------------------------------

func clearBackoff(h host.Host, id peer.ID) {
	if sw, ok := h.Network().(*swarm.Swarm); ok {
		sw.Backoff().Clear(id)
	}
}

func dial(from, to host.Host) error {
	clearBackoff(from, to.ID())
	ctx, cancel := context.WithTimeout(context.Background(), settle)
	defer cancel()
	return from.Connect(ctx, peer.AddrInfo{ID: to.ID(), Addrs: to.Addrs()})
}

func connected(h host.Host, id peer.ID) bool {
	return h.Network().Connectedness(id) == network.Connected
}

// newClient starts a bare connection that can send sync requests (the requester side only accepts responses
// for procedures it has registered itself).
func newClient(chainID []byte, seed string, handlers map[string]p2p.RPCHandler) *p2p.Connection {
	c := p2p.NewConnection(nolog.L{}, &p2p.Config{Addresses: []string{"/ip4/127.0.0.1/tcp/0"}, ChainID: chainID, ConnectionSecurity: "none", MinNumOfConnections: 1})
	for _, name := range []string{csync.RPCEndpointGetLastBlock, csync.RPCEndpointGetHighestCommonBlock, csync.RPCEndpointGetBlocksFromID} {
		h := handlers[name]
		if h == nil {
			h = func(w p2p.ResponseWriter, req *p2p.Request) {}
		}
		if err := c.RegisterRPCHandler(name, h); err != nil {
			panic(err)
		}
	}
	if err := c.Start([]byte(seed)); err != nil {
		panic(err)
	}
	return c
}

func varint(x uint64) []byte {
	var b []byte
	for x >= 0x80 {
		b = append(b, byte(x)|0x80)
		x >>= 7
	}
	return append(b, byte(x))
}

func fb(n int, v []byte) []byte {
	return append(append(varint(uint64(n)<<3|2), varint(uint64(len(v)))...), v...)
}

// envelope is the request message of the message protocol (id, procedure, data); nil data is left out.
func envelope(id, proc string, data []byte) []byte {
	out := append(fb(1, []byte(id)), fb(2, []byte(proc))...)
	if data != nil {
		out = append(out, fb(3, data)...)
	}
	return out
}

func rawRequest(from, to host.Host, proto string, payload []byte) error {
	ctx, cancel := context.WithTimeout(context.Background(), settle)
	defer cancel()
	st, err := from.NewStream(ctx, to.ID(), protocol.ID(proto))
	if err != nil {
		return err
	}
	if _, err := st.Write(payload); err != nil {
		return err
	}
	return st.Close()
}

func ask(c *p2p.Connection, to peer.ID, proc string, data []byte) p2p.Response {
	ctx, cancel := context.WithTimeout(context.Background(), settle)
	defer cancel()
	return c.RequestFrom(ctx, to, proc, data)
}

// ---- part b: handlers ---------------------------------------------------------------------------

func serverConfig() node.Config {
	cfg := node.MenuConfig()
	cfg.StartP2P = true
	cfg.P2PAddrs = []string{"/ip4/127.0.0.1/tcp/0"}
	return cfg
}

func partB(r *vlib.Run) {
	vclock.Reset()
	vclock.ResetTickers()
	const L = 112
	cfg := serverConfig()
	cfg.P2PSeed = []byte("server")
	s, err := node.New(cfg)
	if err != nil {
		panic(err)
	}
	defer s.Close()
	chain := []*blockchain.Block{s.Genesis}
	foreign := [][]byte{} // valid sibling blocks that never entered the server's chain
	for h := 1; h <= L; h++ {
		if h%10 == 3 {
			if sib, err := s.ForgeMenu(0, 9); err == nil {
				foreign = append(foreign, sib.Header.ID)
			}
		}
		b, err := s.ApplyMenu([]int{0, 1, 0, 2, 0, 3}[h%6], 0)
		if err != nil {
			panic(fmt.Sprintf("building the server chain, height %d: %v", h, err))
		}
		chain = append(chain, b)
	}
	c := newClient(cfg.ChainID, "client", nil)
	defer c.Stop()
	hs, hc := s.Conn.VerifHost(), c.VerifHost()
	reconnect := func() {
		if connected(hc, hs.ID()) && connected(hs, hc.ID()) {
			return
		}
		if err := dial(hc, hs); err != nil {
			panic("client cannot connect to the server node: " + err.Error())
		}
		if !waitFor(func() bool { return connected(hs, hc.ID()) }) {
			panic("client not connected")
		}
	}
	reconnect()
	seen := map[string]bool{}
	report := func(key, what string, desc interface{}) {
		if !seen[key] {
			seen[key] = true
			r.Violation(key, what, caseT{"handlers", desc})
		}
	}
	idAt := func(h int) []byte { return chain[h].Header.ID }
	heightOf := map[string]int{}
	for h, b := range chain {
		heightOf[string(b.Header.ID)] = h
	}

	// getLastBlock
	res := ask(c, hs.ID(), csync.RPCEndpointGetLastBlock, nil)
	if res.Error() != nil {
		report("last-block-error", fmt.Sprintf("getLastBlock: %v", res.Error()), "getLastBlock")
	} else if b, err := blockchain.NewBlock(res.Data()); err != nil || !bytes.Equal(b.Header.ID, idAt(L)) {
		report("last-block-wrong", fmt.Sprintf("getLastBlock did not return the tip (%v)", err), "getLastBlock")
	}
	r.Add("requests", 1)

	// getBlocksFromId: every block of the server's chain (cache holds the last 6 only), plus foreign ids
	for h := 0; h <= L; h++ {
		res := ask(c, hs.ID(), csync.RPCEndpointGetBlocksFromID, csync.VerifEncodeBlocksFromIDRequest(idAt(h)))
		r.Add("requests", 1)
		r.Add("transitions", 1)
		want := L - h
		if want > 103 {
			want = 103
		}
		desc := fmt.Sprintf("getBlocksFromId(height %d of %d)", h, L)
		if res.Error() != nil {
			if want > 0 {
				report("blocks-from-id-error", fmt.Sprintf("%s: %v", desc, res.Error()), desc)
			}
			continue
		}
		resp := &csync.GetBlocksFromIDResponse{}
		if len(res.Data()) > 0 {
			if err := resp.Decode(res.Data()); err != nil {
				report("blocks-from-id-undecodable", fmt.Sprintf("%s: %v", desc, err), desc)
				continue
			}
		}
		if len(resp.Blocks) > 103 {
			report("blocks-from-id-above-cap", fmt.Sprintf("%s: %d blocks returned", desc, len(resp.Blocks)), desc)
		}
		if len(resp.Blocks) != want {
			report("blocks-from-id-count", fmt.Sprintf("%s: %d blocks returned, the chain has %d to give (cap 103)", desc, len(resp.Blocks), want), desc)
			continue
		}
		for i, b := range resp.Blocks {
			b.Init()
			if !bytes.Equal(b.Header.ID, idAt(h+1+i)) {
				report("blocks-from-id-wrong-block", fmt.Sprintf("%s: position %d is not the block at height %d of the server's chain", desc, i, h+1+i), desc)
				break
			}
			if !bytes.Equal(b.Encode(), chain[h+1+i].Encode()) {
				report("blocks-from-id-content", fmt.Sprintf("%s: position %d differs in content from the stored block", desc, i), desc)
				break
			}
		}
	}
	for _, id := range foreign {
		res := ask(c, hs.ID(), csync.RPCEndpointGetBlocksFromID, csync.VerifEncodeBlocksFromIDRequest(id))
		r.Add("requests", 1)
		if res.Error() == nil && len(res.Data()) > 0 {
			report("blocks-from-foreign-id", "getBlocksFromId for a block that is not on the server's chain returned blocks", "foreign id")
		}
		if !connected(hs, hc.ID()) {
			report("ban-for-unknown-id", "a well-formed request for an unknown id got the requester banned", "foreign id")
			reconnect()
		}
	}

	// getHighestCommonBlock: all sequences (order matters to the requester) of <=3 ids over a universe
	type uid struct {
		name string
		id   []byte
		h    int // -1 = not on the server's chain
	}
	uni := []uid{{"genesis", idAt(0), 0}, {"h1", idAt(1), 1}, {"h50", idAt(50), 50}, {"h105", idAt(L - 7), L - 7}, {"h111", idAt(L - 1), L - 1}, {"tip", idAt(L), L}}
	for i, f := range foreign {
		if i < 2 {
			uni = append(uni, uid{fmt.Sprintf("foreign%d", i), f, -1})
		}
	}
	uni = append(uni, uid{"random", bytes.Repeat([]byte{0xAB}, 32), -1})
	maxLen := 3
	var seqs [][]int
	var gen func(p []int)
	gen = func(p []int) {
		if len(p) > 0 {
			seqs = append(seqs, append([]int{}, p...))
		}
		if len(p) == maxLen {
			return
		}
		for i := range uni {
			gen(append(p, i))
		}
	}
	gen(nil)
	for _, sq := range seqs {
		if r.Expired() {
			r.Cap("deadline in part b")
			break
		}
		ids := [][]byte{}
		names := []string{}
		want := -1
		for _, i := range sq {
			ids = append(ids, uni[i].id)
			names = append(names, uni[i].name)
			if uni[i].h > want {
				want = uni[i].h
			}
		}
		res := ask(c, hs.ID(), csync.RPCEndpointGetHighestCommonBlock, csync.VerifEncodeCommonBlockRequest(ids))
		r.Add("requests", 1)
		r.Add("transitions", 1)
		desc := fmt.Sprintf("getHighestCommonBlock%v", names)
		if res.Error() != nil {
			report("common-block-error", fmt.Sprintf("%s: %v", desc, res.Error()), desc)
			if !connected(hs, hc.ID()) {
				reconnect()
			}
			continue
		}
		resp := &csync.GetHighestCommonBlockResponse{}
		if len(res.Data()) > 0 {
			if err := resp.Decode(res.Data()); err != nil {
				report("common-block-undecodable", fmt.Sprintf("%s: %v", desc, err), desc)
				continue
			}
		}
		switch {
		case want < 0 && len(resp.ID) != 0:
			report("common-block-invented", fmt.Sprintf("%s: no id is on the server's chain but %x was returned", desc, resp.ID), desc)
		case want >= 0 && len(resp.ID) == 0:
			report("common-block-missed", fmt.Sprintf("%s: nothing returned, height %d is shared", desc, want), desc)
		case want >= 0 && !bytes.Equal(resp.ID, idAt(want)):
			got, ok := heightOf[string(resp.ID)]
			report("common-block-not-highest", fmt.Sprintf("%s: returned the block at height %d (known=%v), the highest shared one is at %d", desc, got, ok, want), desc)
		}
	}
	r.Add("states", int64(len(seqs)+L+1))

	// malformed requests: ban (disconnect + refusal); the ban is then expired through the virtual clock
	type bad struct {
		name, proc string
		data       []byte
	}
	short := bytes.Repeat([]byte{1}, 31)
	long := bytes.Repeat([]byte{1}, 33)
	bads := []bad{
		{"common:no-data", csync.RPCEndpointGetHighestCommonBlock, nil},
		{"common:undecodable", csync.RPCEndpointGetHighestCommonBlock, []byte{0x0a, 0x40, 1, 2}},
		{"common:empty-list", csync.RPCEndpointGetHighestCommonBlock, csync.VerifEncodeCommonBlockRequest([][]byte{})},
		{"common:short-id", csync.RPCEndpointGetHighestCommonBlock, csync.VerifEncodeCommonBlockRequest([][]byte{idAt(3), short})},
		{"common:long-id", csync.RPCEndpointGetHighestCommonBlock, csync.VerifEncodeCommonBlockRequest([][]byte{long, idAt(3)})},
		{"blocks:no-data", csync.RPCEndpointGetBlocksFromID, nil},
		{"blocks:undecodable", csync.RPCEndpointGetBlocksFromID, []byte{0x0a, 0x40, 1, 2}},
		{"blocks:short-id", csync.RPCEndpointGetBlocksFromID, csync.VerifEncodeBlocksFromIDRequest(short)},
		{"blocks:long-id", csync.RPCEndpointGetBlocksFromID, csync.VerifEncodeBlocksFromIDRequest(long)},
		{"blocks:empty-id", csync.RPCEndpointGetBlocksFromID, csync.VerifEncodeBlocksFromIDRequest([]byte{})},
	}
	addrC := hc.Addrs()[0]
	for _, b := range bads {
		reconnect()
		// one raw request envelope on the server's request protocol: RequestFrom would retry after the ban
		if err := rawRequest(hc, hs, string(s.Conn.VerifReqProtocol()), envelope("bad-"+b.name, b.proc, b.data)); err != nil {
			panic("harness: cannot send raw request: " + err.Error())
		}
		r.Add("requests", 1)
		r.Add("transitions", 1)
		if !waitFor(func() bool { return !s.Conn.VerifAllowed(addrC) }) {
			report("invalid-request-not-banned:"+b.name, "the sender of an invalid sync request is still accepted by the gater", b.name)
		} else if !waitFor(func() bool { return !connected(hs, hc.ID()) }) {
			report("invalid-request-not-disconnected:"+b.name, "the sender of an invalid sync request is banned but still connected", b.name)
		}
		vclock.Set(time.Now().Add(25 * time.Hour))
		vclock.Tick()
		vclock.Reset()
		if !s.Conn.VerifAllowed(addrC) {
			panic("harness: ban did not expire through the virtual clock")
		}
		_ = waitFor(func() bool { return !connected(hc, hs.ID()) })
	}
	r.Add("states", int64(len(bads)))
}

func main() {
	r := vlib.Start("C19", "model_checking", 6*time.Minute, 40*time.Minute)
	r.Assume("peer selection draws among equally good peers at random and iterates a Go map; each input is repeated (6/8 times) and any acceptable peer is accepted")
	r.Assume("parts b and c run real nodes over libp2p on 127.0.0.1; goroutine schedules inside libp2p are not controlled, waits poll for the expected state with a 20 s deadline")
	if strings.HasPrefix(r.Only, "RACEPASS:") {
		racePass(r)
		return
	}
	if r.ReplayPath != "" {
		var c struct {
			Part string `json:"part"`
			Desc scenT  `json:"desc"`
		}
		if err := r.ReadReplay(&c); err != nil || c.Part != "converge" {
			fmt.Println("replay supports convergence cases only:", err)
			os.Exit(2)
		}
		fx := buildPair(c.Desc.Pair)
		runScenario(r, fx, c.Desc, func(key, what string, sc scenT) { r.Violation(key, what+" | "+sc.String(), caseT{"converge", sc}) })
		r.Set("states", 1)
		r.Set("transitions", 1)
		r.Sample(c)
		r.Finish()
	}
	// a worker process re-runs main() and serves the first sharded call it reaches: the parent names the phase
	phase := os.Getenv("VERIF_PHASE")
	if (r.Only == "" || r.Only == "selection") && (!inWorker() || phase == "A") {
		os.Setenv("VERIF_PHASE", "A")
		partA(r)
	}
	if !inWorker() && (r.Only == "" || r.Only == "handlers") {
		if p := vlib.CatchStack(func() { partB(r) }); p != "" {
			r.Violation("handlers-panic", "panic while probing the handlers: "+p, caseT{"handlers", "panic"})
		}
	}
	if (r.Only == "" || r.Only == "converge") && (!inWorker() || phase == "C") {
		os.Setenv("VERIF_PHASE", "C")
		partC(r)
	}
	if !inWorker() && r.Only == "" {
		concrun.RaceOnlyTopsIn = "github.com/LiskHQ/lisk-engine/"
		concrun.RacePass(r, "c19", 3)
	}
	r.Set("traces_validated_against_impl", r.Get("states"))
	r.Set("explanation", "(a) every sequence of <=4 (thorough 5) reported tips over 2 maxHeightPrevoted x 2 heights x 3 block ids through the real getBestNodeInfo; (b) a real node with a 112-block chain (block cache 6) serves a libp2p client: getLastBlock, getBlocksFromId for every height and foreign ids (content, order, cap 103), getHighestCommonBlock for every sequence of <=3 ids over 9 ids (on-chain at several depths, foreign, random), 10 malformed requests (ban + disconnect); (c) convergence scenarios, see counters")
	r.Sample(caseT{"selection", []tipT{{7, 12, 1}, {7, 12, 2}, {7, 12, 2}, {5, 12, 3}}})
	r.Finish()
}

func inWorker() bool { return os.Getenv("VERIF_WORKER") != "" }

// racePass runs multi-peer block syncs, fast syncs and concurrent handler requests free-running under the
// race detector (the sync code starts one goroutine per peer and per requested id).
func racePass(r *vlib.Run) {
	iters := 3
	fmt.Sscanf(r.Only, "RACEPASS:%d", &iters)
	quiet := func(key, what string, sc scenT) {}
	for i := 0; i < iters; i++ {
		for _, pr := range []pairT{{P: 2, A: 1, B: 8}, {P: 0, A: 2, B: 4}, {P: 9, A: 0, B: 7}, {P: 3, A: 1, B: 9, N: 3}} {
			fx := buildPair(pr)
			for _, sc := range []scenT{{Pair: pr, Peer: "stale-and-best", Peers: 3}, {Pair: pr, Peer: "real-node"}, {Pair: pr, Peer: "bad-state-root", At: 1}} {
				runScenario(r, fx, sc, quiet)
			}
			fx.bNode.Close()
		}
	}
	fmt.Println("RACEPASS-DONE")
}
