package main

// Part c: convergence. Node A (real Chain + Executer + started libp2p connection) holds a common prefix of P
// blocks and A own blocks; a peer holds the prefix and B other blocks. A is offered the peer's tip through the
// real process() (fork choice -> Sync). The peer is either a second real node (real handlers on both sides)
// or a scripted peer serving the same chain with one fault. Every (chain pair x peer behaviour x fault
// position) of the bounded universe is run.

import (
	"bytes"
	"fmt"
	"sync"
	"time"

	"github.com/LiskHQ/lisk-engine/pkg/blockchain"
	csync "github.com/LiskHQ/lisk-engine/pkg/consensus/sync"
	"github.com/LiskHQ/lisk-engine/pkg/p2p"
	"github.com/LiskHQ/lisk-engine/pkg/verifrt/vclock"
	"verif/node"
	"verif/vlib"
)

type pairT struct {
	P int `json:"common"`
	A int `json:"own"`
	B int `json:"peer"`
	N int `json:"validators,omitempty"` // BFT validators (0 = 2)
}

func (p pairT) n() int {
	if p.N == 0 {
		return 2
	}
	return p.N
}

type scenT struct {
	Pair  pairT  `json:"pair"`
	Peer  string `json:"peer_behaviour"`
	At    int    `json:"at,omitempty"` // the fault hits the peer's at-th block after the common prefix (1-based)
	Peers int    `json:"peers,omitempty"`
}

func (s scenT) String() string {
	return fmt.Sprintf("validators=%d common=%d own=%d peer=%d %s@%d", s.Pair.n(), s.Pair.P, s.Pair.A, s.Pair.B, s.Peer, s.At)
}

var shapeCycle = []int{0, 1, 0, 2, 3, 0}

func convCfg(nval int, listen bool, seed string) node.Config {
	cfg := node.MenuConfig()
	if nval != 2 {
		cfg = node.DefaultConfig(nval)
	}
	cfg.MaxBlockCache = 6
	if listen {
		cfg.StartP2P = true
		cfg.P2PAddrs = []string{"/ip4/127.0.0.1/tcp/0"}
		cfg.P2PSeed = []byte(seed)
	}
	return cfg
}

// grow applies k menu blocks with the given salt.
func grow(n *node.Node, k int, salt byte) []*blockchain.Block {
	out := []*blockchain.Block{}
	for i := 0; i < k; i++ {
		h := int(n.Tip().Header.Height) + 1
		b, err := n.ApplyMenu(shapeCycle[h%len(shapeCycle)], salt)
		if err != nil {
			panic(fmt.Sprintf("harness: cannot extend the chain at height %d (salt %d): %v", h, salt, err))
		}
		out = append(out, b)
	}
	return out
}

func replay(n *node.Node, blocks []*blockchain.Block) {
	for _, b := range blocks {
		if err := n.Exec.VerifProcessValidated(node.CloneBlock(b), false); err != nil {
			panic(fmt.Sprintf("harness: replay of height %d failed: %v", b.Header.Height, err))
		}
	}
}

// chainOf lists the blocks of a node from genesis to tip.
func chainOf(n *node.Node) []*blockchain.Block {
	out := []*blockchain.Block{}
	for h := n.Cfg.GenesisHeight; h <= n.Tip().Header.Height; h++ {
		b, err := n.Chain.DataAccess().GetBlockByHeight(h)
		if err != nil {
			panic(fmt.Sprintf("chain of node has no block at height %d: %v", h, err))
		}
		out = append(out, b)
	}
	return out
}

// stateOf is the canonical database content without the temporary block table.
func stateOf(n *node.Node) map[string]string {
	d := n.CanonicalDump()
	for k := range d {
		if len(k) > 0 && k[0] == 7 {
			delete(d, k)
		}
	}
	return d
}

// ---- scripted peer --------------------------------------------------------------------------

type scripted struct {
	mu      sync.Mutex
	chain   []*blockchain.Block // index = height
	byID    map[string]int
	fault   string
	at      int // absolute height of the faulty block
	tipAt   int // the peer claims this height as its tip
	served  int
	reqs    map[string]int
	helper  *node.Node // for re-signing
	limit   int
	badOnce *blockchain.Block
}

func newScripted(chain []*blockchain.Block, helper *node.Node, fault string, at int) *scripted {
	s := &scripted{chain: chain, byID: map[string]int{}, fault: fault, at: at, tipAt: len(chain) - 1, reqs: map[string]int{}, helper: helper, limit: 103}
	for h, b := range chain {
		s.byID[string(b.Header.ID)] = h
	}
	if fault == "one-block-per-request" {
		s.limit = 1
	}
	return s
}

// corrupt returns the block the faulty peer serves instead of chain[at].
func (s *scripted) corrupt(b *blockchain.Block) *blockchain.Block {
	c := node.CloneBlock(b)
	switch s.fault {
	case "bad-signature":
		c.Header.Signature[5] ^= 0x40
		c.Header.Init()
	case "bad-transaction-root":
		c.Header.TransactionRoot = bytes.Repeat([]byte{0x11}, 32)
		s.helper.Reseal(c, false)
	case "bad-state-root":
		c.Header.StateRoot = bytes.Repeat([]byte{0x22}, 32)
		s.helper.Reseal(c, false)
	case "bad-previous-id":
		c.Header.PreviousBlockID = bytes.Repeat([]byte{0x33}, 32)
		s.helper.Reseal(c, false)
	case "wrong-generator":
		other := node.KeysOf(0)
		if bytes.Equal(c.Header.GeneratorAddress, other.Address) {
			other = node.KeysOf(1)
		}
		c.Header.GeneratorAddress = other.Address
		c.Header.Sign(s.helper.Cfg.ChainID, other.EdPriv)
	case "bad-height":
		c.Header.Height += 1
		s.helper.Reseal(c, false)
	}
	return c
}

func (s *scripted) handlers() map[string]p2p.RPCHandler {
	return map[string]p2p.RPCHandler{
		csync.RPCEndpointGetLastBlock: func(w p2p.ResponseWriter, r *p2p.Request) {
			s.mu.Lock()
			defer s.mu.Unlock()
			s.reqs["last"]++
			w.Write(s.chain[s.tipAt].Encode())
		},
		csync.RPCEndpointGetHighestCommonBlock: func(w p2p.ResponseWriter, r *p2p.Request) {
			s.mu.Lock()
			defer s.mu.Unlock()
			s.reqs["common"]++
			req := &csync.GetHighestCommonBlockRequest{}
			if err := req.Decode(r.Data); err != nil {
				w.Error(err)
				return
			}
			best := -1
			for _, id := range req.IDs {
				if h, ok := s.byID[string(id)]; ok && h > best && h <= s.tipAt {
					best = h
				}
			}
			switch s.fault {
			case "common-none":
				best = -1
			case "common-too-low":
				// a block both know, but far below the real fork point (below A's finalized height on long prefixes)
				if best > 1 {
					best = 1
				}
			case "common-unknown-id":
				w.Write((&csync.GetHighestCommonBlockResponse{ID: bytes.Repeat([]byte{0x77}, 32)}).Encode())
				return
			}
			if best < 0 {
				w.Write(nil)
				return
			}
			w.Write((&csync.GetHighestCommonBlockResponse{ID: s.chain[best].Header.ID}).Encode())
		},
		csync.RPCEndpointGetBlocksFromID: func(w p2p.ResponseWriter, r *p2p.Request) {
			s.mu.Lock()
			defer s.mu.Unlock()
			s.reqs["blocks"]++
			req := &csync.GetBlocksFromIDRequest{}
			if err := req.Decode(r.Data); err != nil {
				w.Error(err)
				return
			}
			h, ok := s.byID[string(req.ID)]
			if !ok && s.badOnce != nil && bytes.Equal(req.ID, s.badOnce.Header.ID) {
				h, ok = int(s.badOnce.Header.Height), true
				if s.fault == "bad-height" {
					h = s.at
				}
			}
			if !ok {
				w.Error(fmt.Errorf("unknown block"))
				return
			}
			out := []*blockchain.Block{}
			for k := h + 1; k <= s.tipAt && len(out) < s.limit; k++ {
				b := s.chain[k]
				if k == s.at {
					switch s.fault {
					case "gap":
						continue
					case "stop-with-error":
						if len(out) == 0 {
							w.Error(fmt.Errorf("no more"))
							return
						}
						k = s.tipAt + 1
						continue
					case "duplicate":
						out = append(out, b)
					case "bad-signature", "bad-transaction-root", "bad-state-root", "bad-previous-id", "wrong-generator", "bad-height":
						b = s.corrupt(b)
						s.badOnce = b
					}
				}
				out = append(out, b)
			}
			if s.fault == "descending-order" {
				for i, j := 0, len(out)-1; i < j; i, j = i+1, j-1 {
					out[i], out[j] = out[j], out[i]
				}
			}
			if len(out) == 0 {
				// nothing to give: answer like a peer that does not know the id (an empty list would keep the
				// downloader asking at its rate limit, which the statement does not cover)
				w.Error(fmt.Errorf("no blocks after this id"))
				return
			}
			s.served += len(out)
			w.Write((&csync.GetBlocksFromIDResponse{Blocks: out}).Encode())
		},
	}
}

// ---- scenarios ----------------------------------------------------------------------------------

var honestBehaviours = []string{"real-node", "scripted-honest", "one-block-per-request", "descending-order"}
var faultBehaviours = []string{"bad-transaction-root", "bad-state-root", "bad-signature", "bad-previous-id", "wrong-generator", "bad-height", "gap", "duplicate", "stop-with-error"}
var commonFaults = []string{"common-none", "common-unknown-id", "common-too-low"}

func pairs(thorough bool) []pairT {
	ns := []int{2}
	ps := []int{0, 1, 2, 5, 9}
	as := []int{0, 1, 2, 3, 4}
	ds := []int{1, 2, 3, 4, 5, 6, 9} // peer's lead over A
	if thorough {
		ns = []int{2, 3}
		ps = []int{0, 1, 2, 3, 5, 9, 14}
		as = []int{0, 1, 2, 3, 4, 5, 6}
		ds = []int{1, 2, 3, 4, 5, 6, 7, 8, 9, 11, 13}
	}
	out := []pairT{}
	for _, n := range ns {
		for _, p := range ps {
			for _, a := range as {
				for _, d := range ds {
					if a == 0 && d == 1 {
						continue // the peer's tip is a plain successor: no sync
					}
					out = append(out, pairT{P: p, A: a, B: a + d, N: n})
				}
			}
		}
	}
	return out
}

func scenariosOf(pr pairT, thorough bool) []scenT {
	out := []scenT{}
	for _, b := range honestBehaviours {
		out = append(out, scenT{Pair: pr, Peer: b})
	}
	ats := map[int]bool{1: true, 2: true, (pr.B + 1) / 2: true, pr.B: true}
	if thorough {
		for at := 1; at <= pr.B; at++ {
			ats[at] = true
		}
	}
	for at := 1; at <= pr.B; at++ {
		if !ats[at] {
			continue
		}
		for _, f := range faultBehaviours {
			out = append(out, scenT{Pair: pr, Peer: f, At: at})
		}
	}
	for _, f := range commonFaults {
		out = append(out, scenT{Pair: pr, Peer: f})
	}
	out = append(out, scenT{Pair: pr, Peer: "stale-and-best", Peers: 2})
	if pr.B-pr.A > 2*pr.n() && pr.B >= 5 {
		out = append(out, scenT{Pair: pr, Peer: "tall-low-prevoted-and-best"})
		if pr.A >= 1 {
			out = append(out, scenT{Pair: pr, Peer: "aborted-block-sync-then-failed-fast-sync"})
		}
	}
	if pr.B-pr.A-1 > 2*pr.n() {
		// block sync downloads from the best peer, not from the peer whose block started the sync: the best peer serves a
		// statically invalid block, the (honest) peer that offered its tip must not pay for it
		out = append(out, scenT{Pair: pr, Peer: "faulty-best-beside-honest-offering", At: 1}, scenT{Pair: pr, Peer: "faulty-best-beside-honest-offering", At: 2})
	}
	if pr.A >= 2 && pr.A <= 2*pr.n()-1 && pr.B-pr.A <= 2 {
		// histories of two failed fast syncs on the same node, the second forking higher than the first
		out = append(out, scenT{Pair: pr, Peer: "two-failed-fast-syncs"})
	}
	return out
}

type pairFixture struct {
	bNode  *node.Node
	common []*blockchain.Block
	bChain []*blockchain.Block
}

func buildPair(pr pairT) *pairFixture {
	b, err := node.New(convCfg(pr.n(), false, ""))
	if err != nil {
		panic(err)
	}
	common := grow(b, pr.P, 0)
	grow(b, pr.B, 2)
	return &pairFixture{bNode: b, common: common, bChain: chainOf(b)}
}

func partC(r *vlib.Run) {
	ps := pairs(r.Thorough())
	seen := map[string]bool{}
	report := func(key, what string, sc scenT) {
		if !seen[key] {
			seen[key] = true
			r.Violation(key, what+" | "+sc.String(), caseT{"converge", sc})
		}
	}
	r.RunSharded(len(ps), func(i int) {
		if r.Expired() {
			r.Cap("deadline in part c")
			return
		}
		pr := ps[i]
		var fx *pairFixture
		if p := vlib.Catch(func() { fx = buildPair(pr) }); p != "" {
			r.Violation("converge-fixture", "cannot build the chain pair: "+p, caseT{"converge", pr})
			return
		}
		defer fx.bNode.Close()
		for _, sc := range scenariosOf(pr, r.Thorough()) {
			if r.Expired() {
				r.Cap("deadline in part c")
				return
			}
			done := make(chan string, 1)
			go func() {
				done <- vlib.CatchStack(func() { runScenario(r, fx, sc, report) })
			}()
			select {
			case p := <-done:
				if p != "" {
					report("converge-panic:"+sc.Peer, "panic during the scenario: "+p, sc)
				}
			case <-time.After(150 * time.Second):
				report("sync-does-not-return:"+sc.Peer, "Sync has not returned after 150 s", sc)
				r.Add("hung_scenarios", 1)
				return // the stuck goroutines keep this worker's node busy; give up on this pair
			}
			r.Add("states", 1)
			r.Add("converge_scenarios", 1)
		}
	})
}

// runTwoSyncs: A (prefix + own blocks) is offered, one after the other, two chains that fork from A's chain at the
// common prefix and one block above it; each contains an invalid block (state root) right after its fork
// point, so both fast syncs fail while applying. After each, A must be back on its original tip with its
// original state.
func runTwoSyncs(r *vlib.Run, fx *pairFixture, sc scenT, report func(key, what string, sc scenT)) {
	vclock.Reset()
	pr := sc.Pair
	a, err := node.New(convCfg(pr.n(), true, "node-a"))
	if err != nil {
		panic(err)
	}
	defer a.Close()
	replay(a, fx.common)
	grow(a, pr.A, 1)
	aChain := chainOf(a)
	origTip := a.Tip().Header
	origState := stateOf(a)
	// second peer chain: A's chain up to one block above the prefix, then three other blocks
	b2, err := node.New(convCfg(pr.n(), false, ""))
	if err != nil {
		panic(err)
	}
	defer b2.Close()
	replay(b2, aChain[1:pr.P+2])
	grow(b2, pr.A+1, 3)
	chain2 := chainOf(b2)
	ha := a.Conn.VerifHost()
	sp1 := newScripted(fx.bChain, fx.bNode, "bad-state-root", pr.P+1)
	sp2 := newScripted(chain2, b2, "bad-state-root", pr.P+2)
	c1 := newClient(a.Cfg.ChainID, "peer-1", sp1.handlers())
	defer c1.Stop()
	c2 := newClient(a.Cfg.ChainID, "peer-2", sp2.handlers())
	defer c2.Stop()
	for _, c := range []*p2p.Connection{c1, c2} {
		hp := c.VerifHost()
		if err := dial(hp, ha); err != nil {
			panic("harness: peer cannot connect to node A: " + err.Error())
		}
		if !waitFor(func() bool { return connected(ha, hp.ID()) && connected(hp, ha.ID()) }) {
			panic("harness: peer not connected to node A")
		}
	}
	steps := []struct {
		name string
		c    *p2p.Connection
		tip  *blockchain.Block
	}{
		{"first sync (fork at the common prefix)", c1, fx.bChain[len(fx.bChain)-1]},
		{"second sync (fork one block higher)", c2, chain2[len(chain2)-1]},
	}
	for _, st := range steps {
		errSync := a.Exec.VerifProcess(node.CloneBlock(st.tip), string(st.c.VerifHost().ID()))
		r.Add("transitions", 1)
		r.Add("syncs", 1)
		tip := a.Tip().Header
		if errSync == nil {
			report("faulty-peer-sync-reports-success:two-failed-fast-syncs", st.name+": Sync returned no error although the peer's first block is invalid", sc)
			return
		}
		if !bytes.Equal(tip.ID, origTip.ID) {
			report("fast-sync-not-restored:two-failed-fast-syncs", fmt.Sprintf("%s failed (%v) and A's tip is at height %d, not its original tip at %d", st.name, errSync, tip.Height, origTip.Height), sc)
			return
		}
		if d := node.DiffDumps(origState, stateOf(a)); len(d) > 0 {
			report("fast-sync-state-not-restored:two-failed-fast-syncs", fmt.Sprintf("%s failed (%v), the tip is restored but the database differs: %v", st.name, errSync, head(d, 6)), sc)
			return
		}
	}
	r.Add("faulty_rejected", 1)
	r.Add("fast_sync_scenarios", 1)
}

// runAbortedThenFailed: a block sync that aborts half-way (the peer stops answering after one block) leaves the node
// on a shorter chain with its former blocks in the temp table; the node then forges on; a fast sync from another
// peer fails while applying. The blocks the node had before that fast sync must be back afterwards.
func runAbortedThenFailed(r *vlib.Run, fx *pairFixture, sc scenT, report func(key, what string, sc scenT)) {
	vclock.Reset()
	pr := sc.Pair
	a, err := node.New(convCfg(pr.n(), true, "node-a"))
	if err != nil {
		panic(err)
	}
	defer a.Close()
	replay(a, fx.common)
	grow(a, pr.A, 1)
	ha := a.Conn.VerifHost()
	tipH := pr.P + pr.B
	// step 1: block sync from a peer that serves one block and then errors
	sp1 := newScripted(fx.bChain, fx.bNode, "stop-with-error", pr.P+2)
	c1 := newClient(a.Cfg.ChainID, "peer-1", sp1.handlers())
	defer c1.Stop()
	if err := dial(c1.VerifHost(), ha); err != nil {
		panic("harness: " + err.Error())
	}
	if !waitFor(func() bool { return connected(ha, c1.VerifHost().ID()) }) {
		panic("harness: peer not connected")
	}
	err1 := a.Exec.VerifProcess(node.CloneBlock(fx.bChain[tipH]), string(c1.VerifHost().ID()))
	r.Add("syncs", 1)
	if err1 == nil || int(a.Tip().Header.Height) != pr.P+1 {
		r.Add("aborted_block_sync_fixture_not_applicable", 1)
		return // the download did not stop where the scenario needs it
	}
	// the node goes on with two blocks of its own
	grow(a, 2, 5)
	origTip := a.Tip().Header
	origState := stateOf(a)
	aChain := chainOf(a)
	// step 2: fast sync from a peer whose chain forks one block below A's tip and starts with an invalid block
	b2, err := node.New(convCfg(pr.n(), false, ""))
	if err != nil {
		panic(err)
	}
	defer b2.Close()
	replay(b2, aChain[1:len(aChain)-1])
	grow(b2, 3, 6)
	chain2 := chainOf(b2)
	sp2 := newScripted(chain2, b2, "bad-state-root", len(aChain)-1)
	c2 := newClient(a.Cfg.ChainID, "peer-2", sp2.handlers())
	defer c2.Stop()
	if err := dial(c2.VerifHost(), ha); err != nil {
		// the first peer may have been banned together with the shared loopback IP
		vclock.Set(time.Now().Add(25 * time.Hour))
		vclock.Tick()
		vclock.Reset()
		if err := dial(c2.VerifHost(), ha); err != nil {
			panic("harness: second peer cannot connect: " + err.Error())
		}
	}
	if !waitFor(func() bool { return connected(ha, c2.VerifHost().ID()) }) {
		panic("harness: second peer not connected")
	}
	err2 := a.Exec.VerifProcess(node.CloneBlock(chain2[len(chain2)-1]), string(c2.VerifHost().ID()))
	r.Add("syncs", 1)
	r.Add("transitions", 2)
	tip := a.Tip().Header
	if err2 == nil {
		report("faulty-peer-sync-reports-success:aborted-block-sync-then-failed-fast-sync", "Sync returned no error although the peer's first block is invalid", sc)
		return
	}
	if !bytes.Equal(tip.ID, origTip.ID) {
		report("fast-sync-not-restored:aborted-block-sync-then-failed-fast-sync", fmt.Sprintf("the fast sync failed (%v) and A's tip is at height %d, not the tip it had before at %d (an earlier block sync had aborted: %v)", err2, tip.Height, origTip.Height, err1), sc)
		return
	}
	if d := node.DiffDumps(origState, stateOf(a)); len(d) > 0 {
		report("fast-sync-state-not-restored:aborted-block-sync-then-failed-fast-sync", fmt.Sprintf("the tip is restored but the database differs: %v", head(d, 6)), sc)
		return
	}
	r.Add("faulty_rejected", 1)
}

func runScenario(r *vlib.Run, fx *pairFixture, sc scenT, report func(key, what string, sc scenT)) {
	if sc.Peer == "two-failed-fast-syncs" {
		runTwoSyncs(r, fx, sc, report)
		return
	}
	if sc.Peer == "aborted-block-sync-then-failed-fast-sync" {
		runAbortedThenFailed(r, fx, sc, report)
		return
	}
	vclock.Reset()
	pr := sc.Pair
	a, err := node.New(convCfg(pr.n(), true, "node-a"))
	if err != nil {
		panic(err)
	}
	defer a.Close()
	replay(a, fx.common)
	grow(a, pr.A, 1)
	origTip := a.Tip().Header
	origState := stateOf(a)
	finalized := int(a.Finalized())
	var finalizedID []byte
	if fb, err := a.Chain.DataAccess().GetBlockHeaderByHeight(uint32(finalized)); err == nil {
		finalizedID = fb.ID
	}
	ha := a.Conn.VerifHost()

	// the peers
	type peerT struct {
		conn  *p2p.Connection
		close func()
		sp    *scripted
	}
	peers := []peerT{}
	addScripted := func(seed, fault string, at, tipAt int) *scripted {
		sp := newScripted(fx.bChain, fx.bNode, fault, at)
		sp.tipAt = tipAt
		c := newClient(a.Cfg.ChainID, seed, sp.handlers())
		peers = append(peers, peerT{conn: c, close: func() { c.Stop() }, sp: sp})
		return sp
	}
	tipH := pr.P + pr.B
	switch {
	case sc.Peer == "real-node":
		bn, err := node.New(convCfg(pr.n(), true, "node-b"))
		if err != nil {
			panic(err)
		}
		replay(bn, fx.bChain[1:])
		peers = append(peers, peerT{conn: bn.Conn, close: bn.Close})
	case sc.Peer == "tall-low-prevoted-and-best":
		// a second peer whose chain is higher but less prevoted than the offered one: after the common prefix a single
		// validator forges every second slot, so the height grows while maxHeightPrevoted stays behind
		xn, err := node.New(convCfg(pr.n(), false, ""))
		if err != nil {
			panic(err)
		}
		defer xn.Close()
		replay(xn, fx.common)
		for int(xn.Tip().Header.Height) < tipH+3 {
			if _, err := xn.ApplyMenu(6, 4); err != nil {
				panic("harness: cannot build the single-generator chain: " + err.Error())
			}
		}
		xChain := chainOf(xn)
		xTip, bestTip := xChain[len(xChain)-1].Header, fx.bChain[tipH].Header
		if !(xTip.Height > bestTip.Height && xTip.MaxHeightPrevoted < bestTip.MaxHeightPrevoted) {
			r.Add("tall_low_prevoted_fixture_not_applicable", 1)
			return
		}
		spx := newScripted(xChain, xn, "", 0)
		cx := newClient(a.Cfg.ChainID, "peer-tall", spx.handlers())
		peers = append(peers, peerT{conn: cx, close: func() { cx.Stop() }, sp: spx})
		addScripted("peer-best", "", 0, tipH)
	case sc.Peer == "faulty-best-beside-honest-offering":
		// the taller peer (tip tipH) corrupts the transaction root of its At-th block after the common prefix; the honest peer
		// is one block shorter and offers its own tip
		addScripted("peer-faulty-best", "bad-transaction-root", pr.P+sc.At, tipH)
		addScripted("peer-honest-offering", "", 0, tipH-1)
	case sc.Peers >= 2:
		stale := tipH - 2
		if stale < pr.P {
			stale = pr.P
		}
		addScripted("peer-stale", "", 0, stale)
		for k := 2; k < sc.Peers; k++ {
			addScripted(fmt.Sprintf("peer-best-%d", k), "", 0, tipH)
		}
		addScripted("peer-best", "", 0, tipH)
	case sc.Peer == "scripted-honest":
		addScripted("peer-1", "", 0, tipH)
	default:
		addScripted("peer-1", sc.Peer, pr.P+sc.At, tipH)
	}
	defer func() {
		for _, p := range peers {
			p.close()
		}
	}()
	for _, p := range peers {
		hp := p.conn.VerifHost()
		if err := dial(hp, ha); err != nil {
			panic("harness: peer cannot connect to node A: " + err.Error())
		}
		if !waitFor(func() bool { return connected(ha, hp.ID()) && connected(hp, ha.ID()) }) {
			panic("harness: peer not connected to node A")
		}
	}
	offering := peers[len(peers)-1]
	hp := offering.conn.VerifHost()
	offered := node.CloneBlock(fx.bChain[tipH])
	if sc.Peer == "faulty-best-beside-honest-offering" {
		offered = node.CloneBlock(fx.bChain[tipH-1])
	}

	errSync := a.Exec.VerifProcess(offered, string(hp.ID()))
	r.Add("transitions", 1)
	r.Add("syncs", 1)
	if sc.Peer == "faulty-best-beside-honest-offering" {
		// all loopback peers share one IP address, so the gater's ban list cannot tell them apart: a ban closes the
		// connection of the banned peer (and only that one), which is what is observed
		faulty := peers[0]
		waitFor(func() bool { return !connected(ha, faulty.conn.VerifHost().ID()) || !connected(ha, hp.ID()) })
		fellOnFaulty := !connected(ha, faulty.conn.VerifHost().ID())
		r.Add("faulty_best_scenarios", 1)
		if faulty.sp.badOnce != nil && !connected(ha, hp.ID()) {
			report("honest-peer-banned:"+sc.Peer, fmt.Sprintf("block sync downloaded a statically invalid block from the best peer and disconnected the honest peer whose block had started the sync (err=%v; the faulty peer was disconnected: %v)", errSync, fellOnFaulty), sc)
		}
	}

	tip := a.Tip().Header
	diffH := tipH - (pr.P + pr.A)
	twoRounds := 2 * pr.n()
	fast := diffH <= twoRounds // two rounds of the BFT validators
	if fast {
		r.Add("fast_sync_scenarios", 1)
	} else {
		r.Add("block_sync_scenarios", 1)
	}
	banned := !a.Conn.VerifAllowed(hp.Addrs()[0])
	honest := sc.Peers >= 2 || sc.Peer == "tall-low-prevoted-and-best" || sc.Peer == "real-node" || sc.Peer == "scripted-honest" || sc.Peer == "one-block-per-request" || sc.Peer == "descending-order"

	// whatever happened, A's database must be the one a node reaches by applying A's current chain
	final := chainOf(a)
	ref, err := node.New(convCfg(pr.n(), false, ""))
	if err != nil {
		panic(err)
	}
	defer ref.Close()
	var refErr string
	for _, b := range final[1:] {
		if err := ref.Exec.VerifProcessValidated(node.CloneBlock(b), false); err != nil {
			refErr = fmt.Sprintf("height %d: %v", b.Header.Height, err)
			break
		}
	}
	if refErr != "" {
		report("invalid-block-on-chain:"+sc.Peer, "after the sync A's chain holds a block a fresh node rejects: "+refErr, sc)
	} else if d := node.DiffDumps(stateOf(ref), stateOf(a)); len(d) > 0 && int(a.Finalized()) == int(ref.Finalized()) {
		report("state-differs-from-replay:"+sc.Peer, fmt.Sprintf("after the sync (err=%v) A's database differs from a fresh node that applied A's chain: %v", errSync, head(d, 6)), sc)
	}
	// finality may have advanced during the sync (valid blocks of the peer before a later one failed): what is finalized
	// now is just as irreversible
	if finNow := int(a.Finalized()); finNow > finalized {
		r.Add("syncs_in_which_finality_advanced", 1)
		if int(tip.Height) < finNow {
			report("block-finalized-during-sync-reverted:"+sc.Peer, fmt.Sprintf("after the sync (err=%v) A's tip is at %d, below its finalized height %d (finalized %d before the sync)", errSync, tip.Height, finNow, finalized), sc)
		} else if _, err := a.Chain.DataAccess().GetBlockHeaderByHeight(uint32(finNow)); err != nil {
			report("block-finalized-during-sync-reverted:"+sc.Peer, fmt.Sprintf("after the sync (err=%v) the block at A's finalized height %d is not served: %v", errSync, finNow, err), sc)
		}
	}
	if int(tip.Height) < finalized {
		report("finalized-block-reverted:"+sc.Peer, fmt.Sprintf("A's tip is at %d, below its finalized height %d", tip.Height, finalized), sc)
	}

	onPeerChain := bytes.Equal(tip.ID, fx.bChain[tipH].Header.ID)
	unchanged := bytes.Equal(tip.ID, origTip.ID)
	switch {
	case finalized > pr.P:
		// A has finalized a block of its own fork: the peer's chain contradicts finality, which cannot happen
		// while less than a third of the validators misbehave. The statement's "better valid chain" does not
		// apply; only the generic oracles above (finalized blocks stay, state matches the chain) do.
		r.Add("peer_chain_contradicts_finality", 1)
		if !unchanged && int(tip.Height) >= finalized {
			if fb, err := a.Chain.DataAccess().GetBlockHeaderByHeight(uint32(finalized)); err != nil || !bytes.Equal(fb.ID, finalizedID) {
				report("finalized-block-replaced:"+sc.Peer, fmt.Sprintf("the block at A's finalized height %d changed during the sync", finalized), sc)
			}
		}
	case honest:
		declined := fast && (pr.A > twoRounds || pr.B > twoRounds) // fast sync gives up beyond two rounds and waits for the next block
		switch {
		case errSync == nil && !onPeerChain:
			report("sync-ok-but-not-on-peer-chain:"+sc.Peer, fmt.Sprintf("Sync returned no error but A's tip is at height %d (peer tip %d)", tip.Height, tipH), sc)
		case errSync != nil && declined && unchanged:
			r.Add("fast_sync_declined", 1)
		case errSync != nil:
			report("honest-peer-sync-fails:"+sc.Peer, fmt.Sprintf("a better valid chain from an honest peer was not adopted (fast=%v): %v; A's tip at %d", fast, errSync, tip.Height), sc)
		}
		if banned {
			report("honest-peer-banned:"+sc.Peer, fmt.Sprintf("the honest peer was banned (err=%v)", errSync), sc)
		}
		if errSync == nil && onPeerChain {
			r.Add("converged", 1)
		}
	default:
		// faulty peer
		if errSync == nil && !onPeerChain && !unchanged {
			report("faulty-peer-sync-reports-success:"+sc.Peer, fmt.Sprintf("Sync returned no error, A's tip at %d is neither the old tip nor the peer's", tip.Height), sc)
		}
		invalidData := sc.Peer != "gap" && sc.Peer != "duplicate" && sc.Peer != "stop-with-error" && sc.Peer != "common-none" && sc.Peer != "common-unknown-id" && sc.Peer != "common-too-low"
		if fast && errSync != nil && !onPeerChain {
			if !unchanged {
				report("fast-sync-not-restored:"+sc.Peer, fmt.Sprintf("fast sync failed (%v) and A's tip is at height %d, not its original tip at %d", errSync, tip.Height, origTip.Height), sc)
			} else if d := node.DiffDumps(sansFinality(origState, int(a.Finalized()) != finalized), sansFinality(stateOf(a), int(a.Finalized()) != finalized)); len(d) > 0 {
				report("fast-sync-state-not-restored:"+sc.Peer, fmt.Sprintf("fast sync failed (%v), the tip is restored but the database differs: %v", errSync, head(d, 6)), sc)
			}
			// the invalid block is proven invalid when it fails Validate on arrival, or when the download
			// completes (the offered tip itself was served unmodified) and processing reaches it
			proven := sc.Peer == "bad-transaction-root" || sc.At < pr.B
			if invalidData && proven && !banned && offering.sp != nil && offering.sp.badOnce != nil {
				report("fast-sync-invalid-blocks-no-ban:"+sc.Peer, fmt.Sprintf("the peer served an invalid block during fast sync (%v) and was not banned", errSync), sc)
			}
		}
		if sc.Peer == "common-too-low" && fast && finalized > 1 && pr.P > 1 {
			// fast sync: a common block below the finalized height is refused and the peer banned
			if !banned {
				report("common-below-finalized-no-ban", fmt.Sprintf("the peer named a common block at height 1, A's finalized height is %d, and was not banned (err=%v)", finalized, errSync), sc)
			}
			if !unchanged {
				report("common-below-finalized-chain-changed", fmt.Sprintf("the peer named a common block below A's finalized height %d and A's tip moved from %d to %d", finalized, origTip.Height, tip.Height), sc)
			}
		}
		if onPeerChain {
			// the fault never reached A (e.g. the corrupted block lies outside the downloaded range)
			r.Add("fault_not_reached", 1)
		} else {
			r.Add("faulty_rejected", 1)
		}
	}
}

// sansFinality drops what finalization legitimately changes for good (finalized height, pruned state diffs and
// events) when a valid block of the peer advanced finality before a later block proved invalid.
func sansFinality(d map[string]string, drop bool) map[string]string {
	if !drop {
		return d
	}
	out := map[string]string{}
	for k, v := range d {
		if len(k) > 0 && (k[0] == 51 || k[0] == 27 || k[0] == 9) {
			continue
		}
		out[k] = v
	}
	return out
}

func head(s []string, n int) []string {
	if len(s) > n {
		return s[:n]
	}
	return s
}
