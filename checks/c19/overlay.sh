#!/bin/bash
# C19 uses the clock seam of C18 (virtual ban expiry in the connection gater) so that one server node can be
# reused across malformed-request probes; the whole verification runtime is mounted (the race pass helper
# lives in a package that imports the scheduler).
set -e
"$(dirname "$0")/../c18/overlay.sh" "$1"
python3 - "$1" <<'PY'
import json, os, sys, glob
out = sys.argv[1]
p = os.path.join(out, "overlay.json")
d = json.load(open(p))
for f in glob.glob("/verif/verifrt/*/*.go"):
    rel = f[len("/verif/verifrt/"):]
    d["Replace"]["/repo/pkg/verifrt/" + rel] = f
json.dump(d, open(p, "w"), indent=1)
PY
