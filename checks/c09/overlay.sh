#!/bin/bash
set -e
cd /verif
export GOFLAGS=-mod=mod GOPROXY=off GOSUMDB=off GOTOOLCHAIN=local
go build -o bin/codecgen ./tools/codecgen
./bin/codecgen -out "$1"
