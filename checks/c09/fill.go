package main

import (
	"reflect"
	"unsafe"
)

func fillV(v reflect.Value, depth int) {
	if !v.CanSet() {
		v = reflect.NewAt(v.Type(), unsafe.Pointer(v.UnsafeAddr())).Elem()
	}
	t := v.Type()
	switch t.Kind() {
	case reflect.Uint32, reflect.Uint64, reflect.Uint, reflect.Uint8, reflect.Uint16:
		v.SetUint(5)
	case reflect.Int32, reflect.Int64, reflect.Int:
		v.SetInt(-3)
	case reflect.Bool:
		v.SetBool(true)
	case reflect.String:
		v.SetString("ab")
	case reflect.Slice:
		if t.Elem().Kind() == reflect.Uint8 {
			nv := reflect.MakeSlice(t, 3, 3)
			nv.Index(0).SetUint(9)
			v.Set(nv)
			return
		}
		nv := reflect.MakeSlice(t, 2, 2)
		for i := 0; i < 2; i++ {
			fillV(nv.Index(i), depth+1)
		}
		v.Set(nv)
	case reflect.Ptr:
		nv := reflect.New(t.Elem())
		if depth < 4 {
			fillV(nv.Elem(), depth+1)
		}
		v.Set(nv)
	case reflect.Struct:
		for i := 0; i < t.NumField(); i++ {
			if _, ok := t.Field(i).Tag.Lookup("fieldNumber"); ok {
				fillV(v.Field(i), depth+1)
			}
		}
	}
}
