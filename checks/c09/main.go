// C09: untrusted input never crashes or hangs the node.
// Every network-facing decoder / validator / verifier is called, exactly as the network path calls it, on
// bounded-exhaustive families of malformed input; oracle: no panic, error/false/reject on malformed input,
// allocation linear in the input size, no hang.
package main

import (
	"bytes"
	"context"
	"fmt"
	"io"
	"reflect"
	"runtime"
	"sort"
	"strings"
	"sync"
	"time"

	"github.com/libp2p/go-libp2p/core/network"
	"github.com/libp2p/go-libp2p/core/peer"
	ma "github.com/multiformats/go-multiaddr"

	"github.com/LiskHQ/lisk-engine/pkg/blockchain"
	"github.com/LiskHQ/lisk-engine/pkg/codec"
	"github.com/LiskHQ/lisk-engine/pkg/consensus/certificate"
	"github.com/LiskHQ/lisk-engine/pkg/crypto"
	"github.com/LiskHQ/lisk-engine/pkg/p2p"
	"github.com/LiskHQ/lisk-engine/pkg/trie/rmt"
	"github.com/LiskHQ/lisk-engine/pkg/trie/smt"
	"github.com/LiskHQ/lisk-engine/pkg/txpool"
	"github.com/LiskHQ/lisk-engine/pkg/verifrt/codectypes"

	"verif/node"
	"verif/nolog"
	"verif/vlib"
)

type enc interface {
	Encode() []byte
	Decode([]byte) error
	DecodeStrict([]byte) error
}

type caseT struct {
	Entry string `json:"entry"`
	Input string `json:"input_hex"`
	Note  string `json:"note,omitempty"`
}

var r *vlib.Run
var seenKey = map[string]bool{}
var hangs = map[string]int{}

func report(key, what string, c caseT) {
	if !seenKey[key] {
		seenKey[key] = true
		r.Violation(key, what, c)
	} else {
		r.Add("further_violations", 1)
	}
}

func panicSite(p string) string {
	// first repository frame of the panic message is not available from recover(); use the message class
	p = strings.Split(p, "\n")[0]
	for _, pat := range []string{"index out of range", "slice bounds out of range", "nil pointer dereference", "bad public key length", "makeslice", "out of memory"} {
		if strings.Contains(p, pat) {
			return pat
		}
	}
	if len(p) > 60 {
		p = p[:60]
	}
	return p
}

// probe calls f on one input and applies the oracles.
func probe(entry string, in []byte, note string, f func()) {
	r.Add("evaluations", 1)
	var ms0, ms1 runtime.MemStats
	measure := r.Get("evaluations")%64 == 0
	if measure {
		runtime.ReadMemStats(&ms0)
	}
	if hangs[entry] >= 2 {
		r.Add("probes_skipped_after_hangs", 1)
		return
	}
	start := time.Now()
	done := make(chan string, 1)
	go func() { done <- vlib.CatchStack(f) }()
	var p string
	select {
	case p = <-done:
	case <-time.After(10 * time.Second):
		// the call does not return: report it and abandon the goroutine (it keeps one core busy)
		hangs[entry]++
		report("hang:"+entry, fmt.Sprintf("%s does not return within 10 s on a %d-byte input (%s)", entry, len(in), note), caseT{entry, hexs(in), note})
		return
	}
	if d := time.Since(start); d > 5*time.Second {
		report("slow:"+entry, fmt.Sprintf("%s took %v on a %d-byte input (%s)", entry, d, len(in), note), caseT{entry, hexs(in), note})
	}
	if measure {
		runtime.ReadMemStats(&ms1)
		if alloc := ms1.TotalAlloc - ms0.TotalAlloc; alloc > uint64(4096*len(in)+(8<<20)) {
			// TotalAlloc is process wide (background goroutines of pebble/libp2p allocate too): confirm three times in a row
			confirmed := 0
			for i := 0; i < 3; i++ {
				runtime.GC()
				runtime.ReadMemStats(&ms0)
				_ = vlib.CatchStack(f)
				runtime.ReadMemStats(&ms1)
				if ms1.TotalAlloc-ms0.TotalAlloc > uint64(4096*len(in)+(8<<20)) {
					confirmed++
				}
			}
			if confirmed == 3 {
				report("alloc:"+entry, fmt.Sprintf("%s allocated %d bytes for a %d-byte input (%s)", entry, alloc, len(in), note), caseT{entry, hexs(in), note})
			}
		}
	}
	if p != "" {
		site := panicSite(p)
		report("panic:"+entry+":"+site, fmt.Sprintf("%s panics on malformed input (%s): %s", entry, note, firstLines(p, 14)), caseT{entry, hexs(in), note})
		r.AddMap("panics_per_entry", entry, 1)
	}
}

func firstLines(s string, n int) string {
	l := strings.Split(s, "\n")
	if len(l) > n {
		l = l[:n]
	}
	return strings.Join(l, " | ")
}

func hexs(b []byte) string {
	if len(b) > 200 {
		return fmt.Sprintf("%x...(%d bytes)", b[:200], len(b))
	}
	return fmt.Sprintf("%x", b)
}

var hugeVarints = [][]byte{{0xff, 0xff, 0xff, 0xff, 0x0f}, {0xff, 0xff, 0xff, 0xff, 0xff, 0xff, 0xff, 0xff, 0xff, 0x01}, {0x80, 0x80, 0x80, 0x80, 0x08}, {0xff, 0xff, 0xff, 0xff, 0xff, 0xff, 0xff, 0xff, 0xff, 0xff, 0x01}, {0x80}}

// mutations of one seed: truncations, byte substitutions (all 256 in thorough, a boundary set in quick), huge varints spliced in.
func mutations(seed []byte, thorough bool, visit0 func(m []byte, note string)) {
	// every input is handed over in a buffer of exactly its length: a read beyond the end of the message must fail as a slice
	// bound, not succeed silently inside spare capacity (a truncated seed would otherwise still carry the cut-off bytes)
	visit := func(m []byte, note string) {
		visit0(append(make([]byte, 0, len(m)), m...), note)
	}
	for i := 0; i <= len(seed); i++ {
		visit(seed[:i], fmt.Sprintf("truncated to %d", i))
	}
	subs := []int{0x00, 0x01, 0x02, 0x7f, 0x80, 0xff, 0x0a, 0x08}
	if thorough {
		subs = subs[:0]
		for x := 0; x < 256; x++ {
			subs = append(subs, x)
		}
	}
	for i := range seed {
		for _, x := range subs {
			if byte(x) == seed[i] {
				continue
			}
			m := append([]byte{}, seed...)
			m[i] = byte(x)
			visit(m, fmt.Sprintf("byte %d := %02x", i, x))
		}
		for hi, hv := range hugeVarints {
			m := append(append(append([]byte{}, seed[:i]...), hv...), seed[i+1:]...)
			visit(m, fmt.Sprintf("byte %d := huge varint %d", i, hi))
		}
	}
}

func shortStrings(maxLen int, visit func(b []byte)) {
	var rec func(p []byte)
	rec = func(p []byte) {
		visit(append(make([]byte, 0, len(p)), p...))
		if len(p) == maxLen {
			return
		}
		for x := 0; x < 256; x++ {
			rec(append(append([]byte{}, p...), byte(x)))
		}
	}
	rec(nil)
}

// ---- fake stream for the message protocol handlers ----
type fStream struct {
	network.Stream
	r *bytes.Reader
}

func (s *fStream) Read(b []byte) (int, error) { return s.r.Read(b) }
func (s *fStream) Close() error               { return nil }
func (s *fStream) Reset() error               { return nil }
func (s *fStream) Conn() network.Conn         { return fConn{} }

type fConn struct{ network.Conn }

func (fConn) RemotePeer() peer.ID { return peer.ID("remote") }
func (fConn) RemoteMultiaddr() ma.Multiaddr {
	a, _ := ma.NewMultiaddr("/ip4/10.1.2.3/tcp/4001")
	return a
}

type fHost struct{ hostIface }
type hostIface interface{}

var _ io.Reader = (*fStream)(nil)

type nullWriter struct{}

func (nullWriter) Write([]byte) {}
func (nullWriter) Error(error)  {}

func main() {
	r = vlib.Start("C09", "exploration", 5*time.Minute, 30*time.Minute)
	r.Assume("boundedness in time and memory is established for the enumerated inputs only (per-call watchdog 10 s; allocation sampled every 64th call against 4 KiB per input byte + 8 MiB)")
	r.Assume("a panic inside a goroutine spawned by the callee cannot be recovered and would end the worker process, which the driver reports as a failure")
	thorough := r.Thorough()
	maxLen := 2
	types := codectypes.All()
	names := []string{}
	for n := range types {
		names = append(names, n)
	}
	sort.Strings(names)

	// shard: one job per codec type + one job per special entry group
	jobs := append([]string{}, names...)
	jobs = append(jobs, "#constructors", "#node-validators", "#aggregate-commit", "#sync-handlers", "#p2p-handlers", "#proofs", "#crypto")
	if r.Only != "" {
		jobs = []string{r.Only}
	}
	r.RunItems(jobs, func(job string) {
		if r.Expired() {
			r.Cap("deadline")
			return
		}
		if !strings.HasPrefix(job, "#") {
			ctor := types[job]
			e, ok := ctor().(enc)
			if !ok {
				return
			}
			// seed = encoding of a filled value
			seedV := ctor()
			fillAny(seedV)
			seed := seedV.(enc).Encode()
			_ = e
			run := func(in []byte, note string) {
				probe(job+".Decode", in, note, func() { _ = ctor().(enc).Decode(in) })
				probe(job+".DecodeStrict", in, note, func() { _ = ctor().(enc).DecodeStrict(in) })
			}
			ml := maxLen
			if thorough && (strings.HasPrefix(job, "blockchain.") || strings.HasPrefix(job, "p2p.") || strings.HasPrefix(job, "consensus/sync.") || strings.HasPrefix(job, "consensus.EventPost")) {
				ml = 3
			}
			shortStrings(ml, func(b []byte) { run(b, "short string") })
			mutations(seed, true, run)
			return
		}
		switch job {
		case "#constructors":
			txSeed := node.MakeTx([]byte{1, 2, 3, 4}, node.TxSpec{Sender: 1, Nonce: 5, Fee: 7, Script: []byte{0, 1, 2}}).Encode()
			cfg := node.MenuConfig()
			n, _ := node.New(cfg)
			b, _ := n.ForgeMenu(2, 0)
			blockSeed := b.Encode()
			n.Close()
			for _, in := range [][]byte{txSeed, blockSeed} {
				mutations(in, thorough, func(m []byte, note string) {
					probe("NewTransaction+Validate", m, note, func() {
						if t, err := blockchain.NewTransaction(m); err == nil {
							_ = t.Validate()
						}
					})
					probe("NewBlock+Validate", m, note, func() {
						if bl, err := blockchain.NewBlock(m); err == nil {
							_ = bl.Validate()
						}
					})
					probe("NewBlockHeader", m, note, func() { _, _ = blockchain.NewBlockHeader(m) })
					probe("NewBlockAsset", m, note, func() { _, _ = blockchain.NewBlockAsset(m) })
					probe("NewEvent", m, note, func() {
						if e, err := blockchain.NewEvent(m); err == nil {
							_ = e.Validate()
							_ = e.KeyPairs()
						}
					})
				})
			}
			shortStrings(maxLen, func(m []byte) {
				probe("NewBlock+Validate", m, "short string", func() {
					if bl, err := blockchain.NewBlock(m); err == nil {
						_ = bl.Validate()
					}
				})
				probe("NewBlockHeader", m, "short string", func() { _, _ = blockchain.NewBlockHeader(m) })
			})
		case "#node-validators":
			cfg := node.MenuConfig()
			n, _ := node.BuildPath(cfg, []int{0, 2, 0})
			defer n.Close()
			b, _ := n.ForgeMenu(2, 0)
			hd := n.Tip().Header
			k := node.KeysOf(0)
			sc := certificate.NewSingleCommit(hd, k.Address, cfg.ChainID, k.BLSPriv)
			inner := append(append(append(fb(1, sc.BlockID()), fu(2, uint64(sc.Height()))...), fb(3, sc.ValidatorAddress())...), fb(4, sc.CertificateSignature())...)
			scMsg := fb(1, inner)
			mutations(b.Encode(), thorough, func(m []byte, note string) {
				probe("blockValidator", m, note, func() { _ = n.Exec.VerifBlockValidator(m) })
			})
			mutations(scMsg, true, func(m []byte, note string) {
				probe("singleCommitValidator", m, note, func() { _ = n.Exec.VerifSingleCommitValidator(m) })
			})
			shortStrings(maxLen, func(m []byte) {
				probe("blockValidator", m, "short string", func() { _ = n.Exec.VerifBlockValidator(m) })
				probe("singleCommitValidator", m, "short string", func() { _ = n.Exec.VerifSingleCommitValidator(m) })
			})
			// signature field of the right length but arbitrary content, wrong address length etc. are covered by the byte substitutions
			pool := txpool.NewTransactionPool(nil)
			for _, d := range [][]byte{nil, {}, {0}, {1, 2, 3}, bytes.Repeat([]byte{0xff}, 100)} {
				d := d
				probe("txpool.HandleRPCEndpointGetTransaction", d, "request body", func() {
					pool.HandleRPCEndpointGetTransaction(nullWriter{}, &p2p.Request{Data: d, PeerID: "remote"})
				})
			}
		case "#aggregate-commit":
			// 9 validators: a one-byte bitmap is shorter than the validator list
			cfg := node.DefaultConfig(9)
			n, _ := node.New(cfg)
			defer n.Close()
			for i := 0; i < 30; i++ {
				if _, err := n.Apply(node.Shape{}); err != nil {
					panic(err)
				}
			}
			_, mhp, mhc := n.BFTHeights()
			if mhp <= mhc {
				report("harness:no-precommit", "fixture did not precommit", caseT{Entry: job})
				return
			}
			sigs := [][]byte{{}, {0}, bytes.Repeat([]byte{0}, 96), bytes.Repeat([]byte{0xc0}, 96), append([]byte{0xc0}, make([]byte, 95)...), bytes.Repeat([]byte{0xff}, 96), bytes.Repeat([]byte{0x8f}, 95), bytes.Repeat([]byte{1}, 97), bytes.Repeat([]byte{1}, 48)}
			bitmaps := [][]byte{{}, {0}, {1}, {0xff}, {0xff, 0x01}, {0xff, 0xff}, {0, 0}, {0xff, 0xff, 0xff}, bytes.Repeat([]byte{0xff}, 40)}
			for _, bm := range bitmaps {
				for _, sg := range sigs {
					for _, h := range []uint32{mhc, mhc + 1, mhp, mhp + 1, 0, 1<<32 - 1} {
						ac := &blockchain.AggregateCommit{Height: h, AggregationBits: bm, CertificateSignature: sg}
						in := ac.Encode()
						probe("verifyAggregateCommit", in, fmt.Sprintf("bitmap %x, %d-byte signature, height %d", bm, len(sg), h), func() { _ = n.Exec.VerifVerifyAggregateCommit(ac) })
					}
					// through a whole block
					b, err := n.Forge(node.Shape{})
					if err != nil {
						continue
					}
					b.Header.AggregateCommit = &blockchain.AggregateCommit{Height: mhc + 1, AggregationBits: bm, CertificateSignature: sg}
					n.Reseal(b, false)
					probe("processValidated(aggregate commit)", b.Header.AggregateCommit.Encode(), fmt.Sprintf("bitmap %x, %d-byte signature", bm, len(sg)), func() {
						if b.Validate() == nil {
							if n.Exec.VerifProcessValidated(b, false) == nil {
								_ = n.Exec.VerifDeleteBlock(n.Tip(), false)
							}
						}
					})
				}
			}
		case "#sync-handlers":
			cfg := node.MenuConfig()
			cfg.StartP2P = true
			n, err := node.BuildPath(cfg, []int{0, 2, 0, 1})
			if err != nil {
				report("harness:sync-node", err.Error(), caseT{Entry: job})
				return
			}
			defer n.Close()
			sy := n.Exec.VerifSyncer()
			hs := map[string]p2p.RPCHandler{"getLastBlock": sy.HandleRPCEndpointGetLastBlock(), "getHighestCommonBlock": sy.HandleRPCEndpointGetHighestCommonBlock(), "getBlocksFromID": sy.HandleRPCEndpointGetBlocksFromID()}
			ids := fb(1, n.Tip().Header.ID)
			ids = append(ids, fb(1, n.Genesis.Header.ID)...)
			seeds := map[string][]byte{"getLastBlock": {}, "getHighestCommonBlock": ids, "getBlocksFromID": fb(1, n.Genesis.Header.ID)}
			for name, h := range hs {
				name, h := name, h
				call := func(m []byte, note string) {
					probe("sync."+name, m, note, func() { h(nullWriter{}, &p2p.Request{Data: m, PeerID: "remote", Procedure: name}) })
				}
				call(nil, "nil body")
				mutations(seeds[name], true, call)
				shortStrings(maxLen, func(m []byte) { call(m, "short string") })
			}
		case "#p2p-handlers":
			mp, err := p2p.VerifNewMessageProtocol([]byte{1, 2, 3, 4}, "1.0", nil, nolog.L{}, time.Second)
			if err != nil {
				return
			}
			_ = mp.RegisterRPCHandler("echo", func(w p2p.ResponseWriter, r *p2p.Request) { w.Write(r.Data) })
			mp.VerifStart()
			// Request{1:id,2:procedure,3:data}; the handler replies through the (nil) host only for well-formed known procedures, so use an unknown one as seed
			reqSeed := append(append(fb(1, []byte("id-1")), fb(2, []byte("nope"))...), fb(3, []byte{1, 2, 3})...)
			resSeed := append(append(append(fb(1, []byte("id-1")), fb(2, []byte("echo"))...), fb(3, []byte{1, 2, 3})...), fb(4, []byte("err"))...)
			mutations(reqSeed, thorough, func(m []byte, note string) {
				if bytes.Contains(m, []byte("echo")) {
					return
				}
				probe("MessageProtocol.onRequest", m, note, func() { mp.VerifOnRequest(context.Background(), &fStream{r: bytes.NewReader(m)}) })
			})
			mutations(resSeed, thorough, func(m []byte, note string) {
				probe("MessageProtocol.onResponse", m, note, func() { mp.VerifOnResponse(&fStream{r: bytes.NewReader(m)}) })
			})
			shortStrings(maxLen, func(m []byte) {
				probe("MessageProtocol.onRequest", m, "short string", func() { mp.VerifOnRequest(context.Background(), &fStream{r: bytes.NewReader(m)}) })
				probe("MessageProtocol.onResponse", m, "short string", func() { mp.VerifOnResponse(&fStream{r: bytes.NewReader(m)}) })
			})
		case "#proofs":
			proofs(thorough)
		case "#crypto":
			cryptoProbes()
		}
	})
	ev := r.Get("evaluations")
	r.Set("distinct_nontrivial", ev)
	r.Set("rule", fmt.Sprintf("per entry point: every byte string of length <= %d, and for each valid seed every truncation, byte substitution (8 boundary values; all 256 in the thorough tier), and five oversized varints spliced in at every position; %d codec types x {Decode, DecodeStrict}; constructors+Validate; blockValidator, singleCommitValidator, txpool RPC; verifyAggregateCommit and processValidated with 9 validators x 9 bitmaps x 9 signatures x 6 heights; the three sync RPC handlers on a node with a started libp2p connection; MessageProtocol.onRequest/onResponse over a fake stream; smt.Verify / rmt.VerifyProof / CalculateRootFromUpdateData / right witnesses on structurally mutated proofs; BLS and Ed25519 verification with malformed keys, signatures, bitmaps. every input is distinct by construction", maxLen, len(names)))
	r.Sample(caseT{Entry: "blockchain.BlockHeader.Decode", Input: "0a", Note: "short string"})
	r.Sample(caseT{Entry: "verifyAggregateCommit", Input: hexs((&blockchain.AggregateCommit{Height: 3, AggregationBits: []byte{1}, CertificateSignature: bytes.Repeat([]byte{0xc0}, 96)}).Encode()), Note: "one-byte bitmap for 9 validators"})
	r.Finish()
}

func proofs(thorough bool) {
	// ---- sparse Merkle proofs ----
	db := map[string][]byte{}
	mdb := mapDB(db)
	t := smt.NewTrie(nil, 2)
	v := bytes.Repeat([]byte{0x11}, 32)
	root, _ := t.Update(mdb, [][]byte{{0, 0x80}, {1, 0}, {0x80, 0}}, [][]byte{v, v, v})
	q := [][]byte{{0, 0x80}, {0x40, 0x40}}
	pr, _ := t.Prove(mdb, q)
	seed := pr.Encode()
	mutations(seed, thorough, func(m []byte, note string) {
		probe("smt.Verify(decoded proof)", m, note, func() {
			p := &smt.Proof{}
			if p.Decode(m) == nil {
				_, _ = smt.Verify(q, p, root, 2)
			}
		})
	})
	for _, bm := range [][]byte{{}, {0}, {1}, {0xff}, {1, 0}, {0xff, 0xff}, {0xff, 0xff, 0xff}, bytes.Repeat([]byte{0xff}, 40)} {
		for _, key := range [][]byte{{}, {1}, {0, 0x80}, {1, 2, 3}} {
			for _, val := range [][]byte{{}, v, {1}} {
				for _, nsib := range []int{0, 1, 3, 20} {
					p := &smt.Proof{Queries: []*smt.QueryProof{{Key: key, Value: val, Bitmap: bm}, {Key: []byte{0x40, 0x40}, Value: nil, Bitmap: []byte{2}}}}
					for i := 0; i < nsib; i++ {
						p.SiblingHashes = append(p.SiblingHashes, bytes.Repeat([]byte{byte(i)}, 32))
					}
					if nsib == 1 {
						p.SiblingHashes = []codec.Hex{{1, 2, 3}}
					}
					probe("smt.Verify(structured)", p.Encode(), fmt.Sprintf("bitmap %x key %x value %d bytes %d siblings", bm, key, len(val), nsib), func() {
						_, _ = smt.Verify([][]byte{{0, 0x80}, {0x40, 0x40}}, p, root, 2)
						_, _ = smt.Verify([][]byte{key, {0x40, 0x40}}, p, root, len(key))
					})
				}
			}
		}
	}
	// ---- regular Merkle proofs ----
	rdb := mapDB(map[string][]byte{})
	tree := rmt.NewRegularMerkleTree(rdb)
	leaves := [][]byte{}
	hashes := [][]byte{}
	for i := 0; i < 7; i++ {
		d := []byte(fmt.Sprintf("leaf%d", i))
		_ = tree.Append(d)
		leaves = append(leaves, d)
		hashes = append(hashes, hash(append([]byte{0}, d...)))
	}
	qh := [][]byte{hashes[1], hashes[4]}
	rp, _ := tree.GenerateProof(qh)
	sizes := []uint64{0, 1, 2, 6, 7, 8, 1 << 31, 1<<63 + 1, 1<<64 - 1}
	idxSets := [][]uint64{{}, {0}, {1}, rp.Idxs, {rp.Idxs[0]}, {1 << 40, 3}, {1<<64 - 1, 1<<64 - 1}, {rp.Idxs[0], rp.Idxs[0]}, {9, 12, 9}}
	for _, sz := range sizes {
		for _, ix := range idxSets {
			for _, ns := range []int{0, 1, len(rp.SiblingHashes), len(rp.SiblingHashes) + 3} {
				p := &rmt.Proof{Size: sz, Idxs: ix}
				for i := 0; i < ns; i++ {
					p.SiblingHashes = append(p.SiblingHashes, bytes.Repeat([]byte{byte(i + 1)}, 32))
				}
				for _, nq := range []int{0, 1, 2, 3} {
					qq := [][]byte{}
					for i := 0; i < nq; i++ {
						qq = append(qq, hashes[i])
					}
					note := fmt.Sprintf("size %d idxs %v %d siblings %d query hashes", sz, ix, ns, nq)
					probe("rmt.VerifyProof", p.Encode(), note, func() { _ = rmt.VerifyProof(qq, p, tree.Root()) })
					probe("rmt.CalculateRootFromUpdateData", p.Encode(), note, func() { _, _ = rmt.CalculateRootFromUpdateData(qq, p) })
				}
			}
		}
	}
	mutations(rp.Encode(), thorough, func(m []byte, note string) {
		probe("rmt.VerifyProof(decoded proof)", m, note, func() {
			p := &rmt.Proof{}
			if p.Decode(m) == nil {
				_ = rmt.VerifyProof(qh, p, tree.Root())
			}
		})
	})
	for _, idx := range []uint64{0, 1, 3, 7, 8, 1 << 40, 1<<64 - 1} {
		for _, na := range []int{0, 1, 3} {
			for _, nw := range []int{0, 1, 3, 9} {
				ap, w := [][]byte{}, [][]byte{}
				for i := 0; i < na; i++ {
					ap = append(ap, hashes[i])
				}
				for i := 0; i < nw; i++ {
					w = append(w, hashes[i%7])
				}
				probe("rmt.VerifyRightWitness", nil, fmt.Sprintf("idx %d appendPath %d witness %d", idx, na, nw), func() { _ = rmt.VerifyRightWitness(idx, ap, w, tree.Root()) })
			}
		}
	}
}

func cryptoProbes() {
	kp := crypto.BLSKeyGen(bytes.Repeat([]byte{7}, 32))
	msg := []byte("message")
	sig := crypto.BLSSign(msg, kp.PrivateKey)
	lens := []int{0, 1, 47, 48, 49, 95, 96, 97}
	fills := []byte{0x00, 0xc0, 0xff, 0x80, 0x01}
	bufs := [][]byte{}
	for _, l := range lens {
		for _, f := range fills {
			b := bytes.Repeat([]byte{f}, l)
			bufs = append(bufs, b)
			if l > 0 {
				c := make([]byte, l)
				c[0] = f
				bufs = append(bufs, c)
			}
		}
	}
	for _, a := range bufs {
		probe("BLSVerify(sig malformed)", a, "", func() { _ = crypto.BLSVerify(msg, a, kp.PublicKey) })
		probe("BLSVerify(key malformed)", a, "", func() { _ = crypto.BLSVerify(msg, sig, a) })
		probe("BLSPopVerify", a, "", func() { _ = crypto.BLSPopVerify(a, sig); _ = crypto.BLSPopVerify(kp.PublicKey, a) })
		for _, bm := range [][]byte{{}, {0}, {1}, {3}, {0xff}, {0xff, 0xff}} {
			probe("BLSVerifyAggSig", append(append([]byte{}, bm...), a...), fmt.Sprintf("bitmap %x", bm), func() {
				_ = crypto.BLSVerifyAggSig([][]byte{kp.PublicKey, a}, bm, sig, msg)
				_ = crypto.BLSVerifyAggSig([][]byte{kp.PublicKey, kp.PublicKey, kp.PublicKey}, bm, a, msg)
			})
			probe("BLSVerifyWeightedAggSig", append(append([]byte{}, bm...), a...), fmt.Sprintf("bitmap %x", bm), func() {
				_ = crypto.BLSVerifyWeightedAggSig([][]byte{kp.PublicKey, a}, bm, sig, []uint64{1, 1}, 1, msg)
				_ = crypto.BLSVerifyWeightedAggSig([][]byte{kp.PublicKey, kp.PublicKey}, bm, a, []uint64{1, 2}, 1, msg)
			})
		}
	}
	pub, priv, _ := crypto.GetKeys("passphrase for ed25519 probes")
	esig := crypto.Sign(priv, msg)
	for _, l := range []int{0, 1, 31, 32, 33, 63, 64, 65} {
		for _, f := range fills {
			b := bytes.Repeat([]byte{f}, l)
			probe("VerifySignature(key malformed)", b, fmt.Sprintf("%d-byte key", l), func() { _ = crypto.VerifySignature(b, esig, msg) })
			probe("VerifySignature(sig malformed)", b, fmt.Sprintf("%d-byte signature", l), func() { _ = crypto.VerifySignature(pub, b, msg) })
			probe("ValidateBlockSignature", b, fmt.Sprintf("%d-byte key", l), func() { _ = blockchain.ValidateBlockSignature(b, esig, []byte{1, 2, 3, 4}, msg) })
		}
	}
}

// lockedDB: smt.Update writes nodes from several goroutines at once, the store has to tolerate that
type lockedDB struct {
	mu sync.Mutex
	m  map[string][]byte
}

func mapDB(m map[string][]byte) *lockedDB { return &lockedDB{m: m} }

func (d *lockedDB) Get(k []byte) ([]byte, bool) {
	d.mu.Lock()
	defer d.mu.Unlock()
	v, ok := d.m[string(k)]
	return v, ok
}
func (d *lockedDB) Set(k, v []byte) {
	d.mu.Lock()
	defer d.mu.Unlock()
	d.m[string(k)] = append([]byte{}, v...)
}
func (d *lockedDB) Del(k []byte) {
	d.mu.Lock()
	defer d.mu.Unlock()
	delete(d.m, string(k))
}

func hash(b []byte) []byte { return crypto.Hash(b) }

func varint(x uint64) []byte {
	var b []byte
	for x >= 0x80 {
		b = append(b, byte(x)|0x80)
		x >>= 7
	}
	return append(b, byte(x))
}
func fb(n int, v []byte) []byte {
	return append(append(varint(uint64(n)<<3|2), varint(uint64(len(v)))...), v...)
}
func fu(n int, v uint64) []byte { return append(varint(uint64(n)<<3|0), varint(v)...) }

// fillAny sets every codec field of the struct behind p to a small non-zero value.
func fillAny(p interface{}) {
	fillV(reflect.ValueOf(p).Elem(), 0)
}
