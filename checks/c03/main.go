// C03: a block is appended only if it satisfies every validity rule; a rejected block changes nothing.
// States = chains of <=K menu blocks on the real node. For every state and every valid successor V
// (each menu shape): every mutant of V from the mutation alphabet, raw and re-sealed, is fed to
// Block.Validate + processValidated (what process()/sync do); accepted <=> reference validity predicate.
package main

import (
	"bytes"
	"crypto/ed25519"
	"fmt"
	"regexp"
	"time"

	"github.com/LiskHQ/lisk-engine/pkg/blockchain"
	"github.com/LiskHQ/lisk-engine/pkg/codec"

	"verif/node"
	"verif/ref"
	"verif/vlib"
)

type caseT struct {
	Path     []int  `json:"path"`
	Shape    int    `json:"shape"`
	Mutant   string `json:"mutant"`
	Resealed bool   `json:"resealed"`
}

// pre is what the reference predicate knows about the node before the block.
type pre struct {
	n        *node.Node
	tip      *blockchain.BlockHeader
	genList  []int // validator indexes in generator order for the next height
	mhp      uint32
	mhc      uint32
	knownAgg []byte // encoding of an aggregate commit known to be valid (from the forged block), if any
	nextVH   []byte // validatorsHash of the parameters for height+1 when the block changes nothing
	recent   map[string]ref.CHeader
	window   int
}

var alnum = regexp.MustCompile("^[a-zA-Z0-9]*$")

func txStaticOK(t *blockchain.Transaction) bool {
	if !alnum.MatchString(t.Module) || !alnum.MatchString(t.Command) || len(t.Params) > 14*1024 || len(t.SenderPublicKey) != 32 || len(t.Signatures) == 0 {
		return false
	}
	for _, s := range t.Signatures {
		if len(s) != 64 {
			return false
		}
	}
	return true
}

// refValid is the reference validity predicate of the property statement. It returns the first violated rule.
func refValid(p *pre, b *blockchain.Block) (bool, string) {
	h := b.Header
	cfg := p.n.Cfg
	if len(h.PreviousBlockID) != 32 || len(h.GeneratorAddress) != 20 || len(h.Signature) != 64 {
		return false, "static-header-lengths"
	}
	if h.Version != 2 {
		return false, "version"
	}
	if h.Height != p.tip.Height+1 {
		return false, "height"
	}
	if !bytes.Equal(h.PreviousBlockID, p.tip.ID) {
		return false, "previous-block-id"
	}
	slotOf := func(ts uint32) int64 { return int64(ts-p.n.Genesis.Header.Timestamp) / int64(cfg.BlockTime) }
	if h.Timestamp < p.n.Genesis.Header.Timestamp {
		return false, "slot-before-genesis"
	}
	now := uint32(time.Now().Unix())
	if slotOf(h.Timestamp) > slotOf(now) {
		return false, "future-slot"
	}
	if slotOf(h.Timestamp) <= slotOf(p.tip.Timestamp) {
		return false, "slot-not-later"
	}
	gen := node.KeysOf(p.genList[int(slotOf(h.Timestamp))%len(p.genList)])
	if !bytes.Equal(gen.Address, h.GeneratorAddress) {
		return false, "generator"
	}
	if h.MaxHeightPrevoted != p.mhp {
		return false, "max-height-prevoted"
	}
	if rc, ok := p.recent[string(h.GeneratorAddress)]; ok {
		if ref.ContradictingOrderFree(rc, ref.CHeader{Gen: rc.Gen, Height: h.Height, MHG: h.MaxHeightGenerated, MHP: h.MaxHeightPrevoted}) {
			return false, "contradicting-header"
		}
	}
	if h.AggregateCommit == nil {
		return false, "aggregate-commit-missing"
	}
	if h.AggregateCommit.Empty() {
		if h.AggregateCommit.Height != p.mhc {
			return false, "aggregate-commit-empty-height"
		}
	} else if p.knownAgg == nil || !bytes.Equal(h.AggregateCommit.Encode(), p.knownAgg) {
		return false, "aggregate-commit"
	}
	// signature by the slot's generator over all header fields for this chain ID
	// (the signed bytes are re-encoded by the reference codec, not taken from the engine's SigningBytes)
	signed := ref.HeaderSigningBytes(ref.HeaderFields{Version: h.Version, Timestamp: h.Timestamp, Height: h.Height, PreviousBlockID: h.PreviousBlockID,
		GeneratorAddress: h.GeneratorAddress, TransactionRoot: h.TransactionRoot, AssetRoot: h.AssetRoot, EventRoot: h.EventRoot, StateRoot: h.StateRoot,
		MaxHeightPrevoted: h.MaxHeightPrevoted, MaxHeightGenerated: h.MaxHeightGenerated, ImpliesMaxPrevotes: h.ImpliesMaxPrevotes, ValidatorsHash: h.ValidatorsHash,
		AggHeight: h.AggregateCommit.Height, AggBits: h.AggregateCommit.AggregationBits, AggSignature: h.AggregateCommit.CertificateSignature})
	msg := ref.Hash(append(append([]byte("LSK_BH_"), cfg.ChainID...), signed...))
	if !ed25519.Verify(ed25519.PublicKey(gen.EdPub), msg, h.Signature) {
		return false, "signature"
	}
	ids := [][]byte{}
	size := 0
	for _, t := range b.Transactions {
		enc := t.Encode()
		ids = append(ids, ref.Hash(enc))
		size += len(enc)
	}
	if !bytes.Equal(h.TransactionRoot, ref.RMTRoot(ids)) {
		return false, "transaction-root"
	}
	enc := [][]byte{}
	seen := map[string]bool{}
	for i, a := range b.Assets {
		enc = append(enc, a.Encode())
		if seen[a.Module] {
			return false, "assets-duplicate-module"
		}
		seen[a.Module] = true
		if i > 0 && b.Assets[i-1].Module > a.Module {
			return false, "assets-unsorted"
		}
	}
	if !bytes.Equal(h.AssetRoot, ref.RMTRoot(enc)) {
		return false, "asset-root"
	}
	for _, t := range b.Transactions {
		if !txStaticOK(t) {
			return false, "transaction-static"
		}
	}
	if size > int(cfg.MaxPayload) {
		return false, "payload-size"
	}
	for _, a := range b.Assets {
		if a.Module == "bad" {
			return false, "assets-verify"
		}
	}
	for _, t := range b.Transactions {
		if len(t.Params) > 0 && (t.Params[0] == 1 || t.Params[0] == 3 || t.Params[0] == 6 || t.Params[0] == 0xEE) {
			return false, "transaction-verify-or-execute"
		}
	}
	if !bytes.Equal(h.StateRoot, node.NextRoot(p.tip.StateRoot, h.Height, b.Transactions, nil)) {
		return false, "state-root"
	}
	if !bytes.Equal(h.EventRoot, node.EventRoot(node.BlockEvents(h.Height, b.Transactions, b.Assets))) {
		return false, "event-root"
	}
	wantVH := p.nextVH
	for _, t := range b.Transactions {
		if len(t.Params) >= 2 && t.Params[0] == 9 && int(t.Params[1]) < len(cfg.ValChangeMenu) {
			vs := cfg.ValChangeMenu[t.Params[1]]
			hv := []ref.HashVal{}
			for _, lv := range vs.Labi() {
				if lv.BFTWeight > 0 {
					hv = append(hv, ref.HashVal{BLS: lv.BLSKey, Weight: lv.BFTWeight})
				}
			}
			if len(hv) > cfg.BatchSize {
				return false, "validator-change-rejected"
			}
			wantVH = ref.ValidatorsHash(hv, vs.Cert)
		}
	}
	if !bytes.Equal(h.ValidatorsHash, wantVH) {
		return false, "validators-hash"
	}
	return true, ""
}

type mutant struct {
	name   string
	apply  func(b *blockchain.Block, p *pre)
	reseal int // 0: raw only (signature/ID mutations), 1: raw + resealed (header), 2: raw + resealed with recomputed roots (payload)
}

func rnd32(b byte) []byte { return bytes.Repeat([]byte{b}, 32) }

func mutants() []mutant {
	ms := []mutant{}
	add := func(name string, reseal int, f func(b *blockchain.Block, p *pre)) {
		ms = append(ms, mutant{name, f, reseal})
	}
	for _, v := range []uint32{0, 1, 3} {
		v := v
		add(fmt.Sprintf("version=%d", v), 1, func(b *blockchain.Block, p *pre) { b.Header.Version = v })
	}
	add("timestamp=parent", 1, func(b *blockchain.Block, p *pre) { b.Header.Timestamp = p.tip.Timestamp })
	add("timestamp=parent-slot", 1, func(b *blockchain.Block, p *pre) { b.Header.Timestamp = p.tip.Timestamp - p.n.Cfg.BlockTime })
	add("timestamp+1s-same-slot", 1, func(b *blockchain.Block, p *pre) { b.Header.Timestamp++ })
	add("timestamp=next-slot", 1, func(b *blockchain.Block, p *pre) { b.Header.Timestamp += p.n.Cfg.BlockTime })
	add("timestamp=future-slot", 1, func(b *blockchain.Block, p *pre) {
		b.Header.Timestamp = p.n.Slot.GetSlotTime(p.n.Cfg.CurrentSlot + 2)
	})
	add("timestamp=current-slot", 1, func(b *blockchain.Block, p *pre) {
		b.Header.Timestamp = p.n.Slot.GetSlotTime(p.n.Cfg.CurrentSlot)
	})
	// the same timing mutations carried out consistently: the header names the rightful generator of the new slot
	// and that generator's own largest height, so that only the slot rule decides (re-sealed form signs with its key)
	retime := func(b *blockchain.Block, p *pre, ts uint32) {
		b.Header.Timestamp = ts
		slot := int(int64(ts-p.n.Genesis.Header.Timestamp) / int64(p.n.Cfg.BlockTime))
		g := node.KeysOf(p.genList[slot%len(p.genList)])
		b.Header.GeneratorAddress = g.Address
		b.Header.MaxHeightGenerated = 0
		if rc, ok := p.recent[string(g.Address)]; ok {
			b.Header.MaxHeightGenerated = rc.Height
		}
	}
	add("retimed:parent+1s-same-slot", 1, func(b *blockchain.Block, p *pre) { retime(b, p, p.tip.Timestamp+1) })
	add("retimed:last-second-of-parent-slot", 1, func(b *blockchain.Block, p *pre) {
		retime(b, p, p.n.Slot.GetSlotTime(p.n.Slot.GetSlotNumber(p.tip.Timestamp)+1)-1)
	})
	add("retimed:current-slot", 1, func(b *blockchain.Block, p *pre) { retime(b, p, p.n.Slot.GetSlotTime(p.n.Cfg.CurrentSlot)) })
	add("retimed:first-future-slot", 1, func(b *blockchain.Block, p *pre) { retime(b, p, p.n.Slot.GetSlotTime(p.n.Cfg.CurrentSlot+1)) })
	add("height-1", 1, func(b *blockchain.Block, p *pre) { b.Header.Height-- })
	add("height+1", 1, func(b *blockchain.Block, p *pre) { b.Header.Height++ })
	add("height=0", 1, func(b *blockchain.Block, p *pre) { b.Header.Height = 0 })
	add("prev=zero", 1, func(b *blockchain.Block, p *pre) { b.Header.PreviousBlockID = rnd32(0) })
	add("prev=31bytes", 1, func(b *blockchain.Block, p *pre) { b.Header.PreviousBlockID = b.Header.PreviousBlockID[:31] })
	add("prev=grandparent", 1, func(b *blockchain.Block, p *pre) { b.Header.PreviousBlockID = p.tip.PreviousBlockID })
	add("generator=other-validator", 1, func(b *blockchain.Block, p *pre) {
		for _, i := range p.genList {
			if !bytes.Equal(node.KeysOf(i).Address, b.Header.GeneratorAddress) {
				b.Header.GeneratorAddress = node.KeysOf(i).Address
				return
			}
		}
	})
	add("generator=unknown", 1, func(b *blockchain.Block, p *pre) { b.Header.GeneratorAddress = node.KeysOf(9).Address })
	add("generator=19bytes", 1, func(b *blockchain.Block, p *pre) { b.Header.GeneratorAddress = b.Header.GeneratorAddress[:19] })
	add("txroot=random", 1, func(b *blockchain.Block, p *pre) { b.Header.TransactionRoot = rnd32(7) })
	add("txroot=empty-hash", 1, func(b *blockchain.Block, p *pre) { b.Header.TransactionRoot = ref.EmptyHash })
	add("assetroot=random", 1, func(b *blockchain.Block, p *pre) { b.Header.AssetRoot = rnd32(8) })
	add("eventroot=random", 1, func(b *blockchain.Block, p *pre) { b.Header.EventRoot = rnd32(9) })
	add("eventroot=empty-hash", 1, func(b *blockchain.Block, p *pre) { b.Header.EventRoot = ref.EmptyHash })
	add("eventroot=one-event", 1, func(b *blockchain.Block, p *pre) {
		b.Header.EventRoot = node.EventRoot(node.BlockEvents(b.Header.Height, nil, []*blockchain.BlockAsset{{Module: "ev", Data: []byte{1}}}))
	})
	add("stateroot=parent", 1, func(b *blockchain.Block, p *pre) { b.Header.StateRoot = p.tip.StateRoot })
	add("stateroot=random", 1, func(b *blockchain.Block, p *pre) { b.Header.StateRoot = rnd32(10) })
	add("mhp+1", 1, func(b *blockchain.Block, p *pre) { b.Header.MaxHeightPrevoted++ })
	add("mhp-1", 1, func(b *blockchain.Block, p *pre) { b.Header.MaxHeightPrevoted-- })
	add("mhp=height", 1, func(b *blockchain.Block, p *pre) { b.Header.MaxHeightPrevoted = b.Header.Height })
	add("mhg=height", 1, func(b *blockchain.Block, p *pre) { b.Header.MaxHeightGenerated = b.Header.Height })
	add("mhg=height-1", 1, func(b *blockchain.Block, p *pre) { b.Header.MaxHeightGenerated = b.Header.Height - 1 })
	add("mhg=0", 1, func(b *blockchain.Block, p *pre) { b.Header.MaxHeightGenerated = 0 })
	add("mhg-1", 1, func(b *blockchain.Block, p *pre) { b.Header.MaxHeightGenerated-- })
	add("implies-max-prevotes-flipped", 1, func(b *blockchain.Block, p *pre) { b.Header.ImpliesMaxPrevotes = !b.Header.ImpliesMaxPrevotes })
	add("validatorshash=random", 1, func(b *blockchain.Block, p *pre) { b.Header.ValidatorsHash = rnd32(11) })
	add("validatorshash=other-set", 1, func(b *blockchain.Block, p *pre) {
		vs := p.n.Cfg.ValChangeMenu[0]
		hv := []ref.HashVal{}
		for _, lv := range vs.Labi() {
			hv = append(hv, ref.HashVal{BLS: lv.BLSKey, Weight: lv.BFTWeight})
		}
		b.Header.ValidatorsHash = ref.ValidatorsHash(hv, vs.Cert+1)
	})
	add("agg-empty-height+1", 1, func(b *blockchain.Block, p *pre) {
		b.Header.AggregateCommit = &blockchain.AggregateCommit{Height: p.mhc + 1, AggregationBits: []byte{}, CertificateSignature: []byte{}}
	})
	add("agg-empty-height=mhc", 1, func(b *blockchain.Block, p *pre) {
		b.Header.AggregateCommit = &blockchain.AggregateCommit{Height: p.mhc, AggregationBits: []byte{}, CertificateSignature: []byte{}}
	})
	add("agg-garbage-at-mhc+1", 1, func(b *blockchain.Block, p *pre) {
		b.Header.AggregateCommit = &blockchain.AggregateCommit{Height: p.mhc + 1, AggregationBits: []byte{3}, CertificateSignature: bytes.Repeat([]byte{0xc0}, 96)}
	})
	add("agg-bits-only", 1, func(b *blockchain.Block, p *pre) {
		b.Header.AggregateCommit = &blockchain.AggregateCommit{Height: p.mhc + 1, AggregationBits: []byte{3}, CertificateSignature: []byte{}}
	})
	add("agg-flip-bit", 1, func(b *blockchain.Block, p *pre) {
		a := b.Header.AggregateCommit
		if !a.Empty() {
			nb := append([]byte{}, a.AggregationBits...)
			nb[0] ^= 1
			b.Header.AggregateCommit = &blockchain.AggregateCommit{Height: a.Height, AggregationBits: nb, CertificateSignature: a.CertificateSignature}
		} else {
			b.Header.AggregateCommit = &blockchain.AggregateCommit{Height: a.Height, AggregationBits: []byte{1}, CertificateSignature: bytes.Repeat([]byte{0}, 96)}
		}
	})
	// signature / signer (raw only)
	add("signature-bitflip", 0, func(b *blockchain.Block, p *pre) {
		s := append([]byte{}, b.Header.Signature...)
		s[5] ^= 4
		b.Header.Signature = s
	})
	add("signature=zero", 0, func(b *blockchain.Block, p *pre) { b.Header.Signature = make([]byte, 64) })
	add("signature=63bytes", 0, func(b *blockchain.Block, p *pre) { b.Header.Signature = b.Header.Signature[:63] })
	add("signed-by-other-validator", 0, func(b *blockchain.Block, p *pre) {
		for _, i := range p.genList {
			if !bytes.Equal(node.KeysOf(i).Address, b.Header.GeneratorAddress) {
				b.Header.Sign(p.n.Cfg.ChainID, node.KeysOf(i).EdPriv)
				return
			}
		}
		b.Header.Sign(p.n.Cfg.ChainID, node.KeysOf(9).EdPriv)
	})
	add("signed-for-other-chain", 0, func(b *blockchain.Block, p *pre) {
		k := node.KeysForAddress(b.Header.GeneratorAddress)
		b.Header.Sign([]byte{9, 9, 9, 9}, k.EdPriv)
	})
	// payload
	mk := func(s node.TxSpec, p *pre) *blockchain.Transaction { return node.MakeTx(p.n.Cfg.ChainID, s) }
	add("tx-drop-first", 2, func(b *blockchain.Block, p *pre) {
		if len(b.Transactions) > 0 {
			b.Transactions = b.Transactions[1:]
		}
	})
	add("tx-add", 2, func(b *blockchain.Block, p *pre) {
		b.Transactions = append(b.Transactions, mk(node.TxSpec{Sender: 3, Nonce: 77, Fee: 1, Script: []byte{0}}, p))
	})
	add("tx-reorder", 2, func(b *blockchain.Block, p *pre) {
		if len(b.Transactions) >= 2 {
			b.Transactions[0], b.Transactions[1] = b.Transactions[1], b.Transactions[0]
		}
	})
	add("tx-duplicate", 2, func(b *blockchain.Block, p *pre) {
		if len(b.Transactions) > 0 {
			b.Transactions = append(b.Transactions, b.Transactions[0])
		}
	})
	add("tx-bad-module-name", 2, func(b *blockchain.Block, p *pre) {
		b.Transactions = append(b.Transactions, mk(node.TxSpec{Sender: 3, Nonce: 78, Fee: 1, Script: []byte{0}, Module: "a-b"}, p))
	})
	add("tx-sender-key-31", 2, func(b *blockchain.Block, p *pre) {
		t := mk(node.TxSpec{Sender: 3, Nonce: 79, Fee: 1, Script: []byte{0}}, p)
		t.SenderPublicKey = t.SenderPublicKey[:31]
		t.Init()
		b.Transactions = append(b.Transactions, t)
	})
	add("tx-signature-63", 2, func(b *blockchain.Block, p *pre) {
		t := mk(node.TxSpec{Sender: 3, Nonce: 80, Fee: 1, Script: []byte{0}}, p)
		t.Signatures = []codec.Hex{t.Signatures[0][:63]}
		t.Init()
		b.Transactions = append(b.Transactions, t)
	})
	add("tx-no-signature", 2, func(b *blockchain.Block, p *pre) {
		t := mk(node.TxSpec{Sender: 3, Nonce: 81, Fee: 1, Script: []byte{0}}, p)
		t.Signatures = []codec.Hex{}
		t.Init()
		b.Transactions = append(b.Transactions, t)
	})
	add("tx-params-oversize", 2, func(b *blockchain.Block, p *pre) {
		b.Transactions = append(b.Transactions, mk(node.TxSpec{Sender: 3, Nonce: 82, Fee: 1, Script: make([]byte, 14*1024+1)}, p))
	})
	add("tx-verify-invalid", 2, func(b *blockchain.Block, p *pre) {
		b.Transactions = append(b.Transactions, mk(node.TxSpec{Sender: 3, Nonce: 83, Fee: 1, Script: []byte{1}}, p))
	})
	add("tx-verify-pending", 2, func(b *blockchain.Block, p *pre) {
		b.Transactions = append(b.Transactions, mk(node.TxSpec{Sender: 3, Nonce: 84, Fee: 1, Script: []byte{3}}, p))
	})
	add("tx-app-error", 2, func(b *blockchain.Block, p *pre) {
		b.Transactions = append(b.Transactions, mk(node.TxSpec{Sender: 3, Nonce: 85, Fee: 1, Script: []byte{0xEE}}, p))
	})
	add("payload-one-over-limit", 2, func(b *blockchain.Block, p *pre) {
		size := 0
		for _, t := range b.Transactions {
			size += len(t.Encode())
		}
		// pad with one transaction so that the total is exactly limit+1
		base := mk(node.TxSpec{Sender: 3, Nonce: 86, Fee: 1, Script: []byte{0}}, p)
		need := int(p.n.Cfg.MaxPayload) + 1 - size - len(base.Encode())
		for pad := need - 3; pad <= need+3; pad++ {
			if pad < 1 {
				continue
			}
			t := mk(node.TxSpec{Sender: 3, Nonce: 86, Fee: 1, Script: make([]byte, pad+1)}, p)
			if size+len(t.Encode()) == int(p.n.Cfg.MaxPayload)+1 {
				b.Transactions = append(b.Transactions, t)
				return
			}
		}
	})
	add("payload-exactly-at-limit", 2, func(b *blockchain.Block, p *pre) {
		size := 0
		for _, t := range b.Transactions {
			size += len(t.Encode())
		}
		base := mk(node.TxSpec{Sender: 3, Nonce: 87, Fee: 1, Script: []byte{0}}, p)
		need := int(p.n.Cfg.MaxPayload) - size - len(base.Encode())
		for pad := need - 3; pad <= need+3; pad++ {
			if pad < 1 {
				continue
			}
			t := mk(node.TxSpec{Sender: 3, Nonce: 87, Fee: 1, Script: make([]byte, pad+1)}, p)
			if size+len(t.Encode()) == int(p.n.Cfg.MaxPayload) {
				b.Transactions = append(b.Transactions, t)
				return
			}
		}
	})
	// assets
	add("assets-unsorted", 2, func(b *blockchain.Block, p *pre) {
		b.Assets = append([]*blockchain.BlockAsset{{Module: "zz", Data: []byte{1}}}, b.Assets...)
		b.Assets = append(b.Assets, &blockchain.BlockAsset{Module: "aa", Data: []byte{2}})
	})
	add("assets-duplicate-module", 2, func(b *blockchain.Block, p *pre) {
		b.Assets = append(b.Assets, &blockchain.BlockAsset{Module: "zz", Data: []byte{1}}, &blockchain.BlockAsset{Module: "zz", Data: []byte{2}})
	})
	add("assets-bad", 2, func(b *blockchain.Block, p *pre) {
		b.Assets = append([]*blockchain.BlockAsset{{Module: "bad", Data: []byte{1}}}, b.Assets...)
		as := blockchain.BlockAssets(b.Assets)
		as.Sort()
		b.Assets = as
	})
	add("assets-add-sorted", 2, func(b *blockchain.Block, p *pre) {
		as := blockchain.BlockAssets(append(b.Assets, &blockchain.BlockAsset{Module: "extra", Data: []byte{1}}))
		as.Sort()
		b.Assets = as
	})
	add("assets-drop", 2, func(b *blockchain.Block, p *pre) {
		if len(b.Assets) > 0 {
			b.Assets = b.Assets[1:]
		}
	})
	return ms
}

func resealFull(p *pre, b *blockchain.Block) {
	ids := [][]byte{}
	for _, t := range b.Transactions {
		ids = append(ids, t.ID)
	}
	b.Header.TransactionRoot = ref.RMTRoot(ids)
	enc := [][]byte{}
	for _, a := range b.Assets {
		enc = append(enc, a.Encode())
	}
	b.Header.AssetRoot = ref.RMTRoot(enc)
	b.Header.EventRoot = node.EventRoot(node.BlockEvents(b.Header.Height, b.Transactions, b.Assets))
	b.Header.StateRoot = node.NextRoot(p.tip.StateRoot, b.Header.Height, b.Transactions, nil)
}

func sign(p *pre, b *blockchain.Block) {
	if k := node.KeysForAddress(b.Header.GeneratorAddress); k != nil {
		b.Header.Sign(p.n.Cfg.ChainID, k.EdPriv)
	} else {
		b.Header.Init()
	}
}

type snap struct {
	dump string
	tip  string
	h    [3]uint32
	fin  uint32
	root string
}

func take(n *node.Node) snap {
	a, b, c := n.BFTHeights()
	return snap{node.DumpHash(n.CanonicalDump()), string(n.Tip().Header.ID), [3]uint32{a, b, c}, n.Finalized(), string(n.App.Top())}
}

// genListAfter tracks the generator list along a menu path.
func genListAfter(cfg node.Config, path []int) []int {
	gl := cfg.Set.Listed
	for _, k := range path {
		if k == 4 {
			gl = cfg.ValChangeMenu[0].Listed
		}
		if k == 5 {
			gl = cfg.ValChangeMenu[1].Listed
		}
	}
	return gl
}

func buildPre(n *node.Node, path []int, v *blockchain.Block) *pre {
	p := &pre{n: n, tip: n.Tip().Header, genList: genListAfter(n.Cfg, path), window: 3 * n.Cfg.BatchSize, recent: map[string]ref.CHeader{}}
	p.mhp, _, p.mhc = n.BFTHeights()
	if v != nil && !v.Header.AggregateCommit.Empty() {
		p.knownAgg = v.Header.AggregateCommit.Encode()
	}
	if bp, err := n.Exec.GetBFTParameters(n.Exec.VerifConsensusStore(), p.tip.Height+2); err == nil {
		p.nextVH = bp.ValidatorsHash()
	}
	// most recent header of each generator inside the window
	for h := p.tip.Height; h > n.Cfg.GenesisHeight && int(p.tip.Height-h) < p.window; h-- {
		hd, err := n.Chain.DataAccess().GetBlockHeaderByHeight(h)
		if err != nil {
			break
		}
		if _, ok := p.recent[string(hd.GeneratorAddress)]; !ok {
			p.recent[string(hd.GeneratorAddress)] = ref.CHeader{Gen: "g", Height: hd.Height, MHG: hd.MaxHeightGenerated, MHP: hd.MaxHeightPrevoted}
		}
	}
	return p
}

func main() {
	r := vlib.Start("C03", "model_checking", 4*time.Minute, 20*time.Minute)
	r.Assume("entry point = Block.Validate followed by processValidated, which is what process() (valid-block and tie-break branches) and both sync paths execute")
	r.Assume("the node's own maxHeightPrevoted/maxHeightCertified are read from the pre-state through the BFT API (their correctness is C02's subject); a non-empty aggregate commit counts as valid iff it is byte-identical to the one the node itself assembled (C06 decides aggregate commits in depth)")
	r.Assume("the mock application defines execution results: state root, events, per-transaction verify outcome, validator changes")
	K := 3
	if r.Thorough() {
		K = 4
	}
	var paths [][]int
	var gen func(p []int)
	gen = func(p []int) {
		paths = append(paths, append([]int{}, p...))
		if len(p) == K {
			return
		}
		for k := 0; k < node.NumShapes; k++ {
			if !r.Thorough() && len(p) == K-1 && K > 2 && k != 0 && k != 2 && k != 4 && k != 7 {
				continue // quick tier: the last level uses the sub-menu {empty, txs+events, validator join, aggregate commit}
			}
			gen(append(p, k))
		}
	}
	var only *caseT
	if r.ReplayPath != "" {
		only = &caseT{}
		if err := r.ReadReplay(only); err != nil {
			fmt.Println(err)
			r.Finish()
		}
		paths = [][]int{only.Path}
	} else {
		gen(nil)
	}
	ms := mutants()
	cfgOf := func() node.Config {
		cfg := node.MenuConfig()
		cfg.MaxPayload = 2000
		return cfg
	}
	r.RunSharded(len(paths), func(i int) {
		if r.Expired() {
			r.Cap("deadline")
			return
		}
		path := paths[i]
		cfg := cfgOf()
		n, err := node.BuildPath(cfg, path)
		if err != nil {
			r.Add("unbuildable_paths", 1)
			return
		}
		defer func() { n.Close() }()
		r.Add("states", 1)
		if only == nil {
			if broken := tieBreakRejections(r, cfg, path, n); broken {
				n.Close()
				if n, err = node.BuildPath(cfg, path); err != nil {
					return
				}
			}
		}
		for k := 0; k < node.NumShapes; k++ {
			if only != nil && only.Shape != k {
				continue
			}
			v, err := n.ForgeMenu(k, 0)
			if err != nil {
				r.Add("shape_not_forgeable", 1)
				continue
			}
			p := buildPre(n, path, v)
			// the unmutated block must be valid by the reference and accepted by the node
			if ok, why := refValid(p, v); !ok {
				r.Violation("harness-forged-block-invalid-by-reference:"+why, fmt.Sprintf("forged block of shape %d on path %v is invalid by the reference: %s", k, path, why), caseT{path, k, "none", false})
				continue
			}
			s0 := take(n)
			n.DrainEvents()
			type form struct {
				b        *blockchain.Block
				resealed bool
				m        mutant
			}
			forms := []form{}
			for _, m := range ms {
				if only != nil && only.Mutant != m.name {
					continue
				}
				raw := node.CloneBlockLoose(v)
				m.apply(raw, p)
				for _, t := range raw.Transactions {
					if len(t.ID) == 0 {
						t.Init()
					}
				}
				if m.reseal > 0 {
					raw.Header.Init() // raw: only the ID follows the content
				}
				forms = append(forms, form{raw, false, m})
				if m.reseal > 0 {
					rs := node.CloneBlockLoose(raw)
					if m.reseal == 2 {
						resealFull(p, rs)
					}
					sign(p, rs)
					forms = append(forms, form{rs, true, m})
				}
			}
			for _, f := range forms {
				c := caseT{path, k, f.m.name, f.resealed}
				want, why := refValid(p, f.b)
				var got error
				if pan := vlib.Catch(func() {
					got = f.b.Validate()
					if got == nil {
						got = n.Exec.VerifProcessValidated(f.b, false)
					}
				}); pan != "" {
					r.Violation("panic:"+f.m.name, fmt.Sprintf("panic while processing mutant %s (resealed=%v) on path %v shape %d: %s", f.m.name, f.resealed, path, k, pan), c)
					n.Close()
					n, _ = node.BuildPath(cfg, path)
					p.n = n
					s0 = take(n)
					continue
				}
				r.Add("transitions", 1)
				accepted := got == nil
				if want {
					r.Add("mutants_still_valid", 1)
				} else {
					r.AddMap("rejected_by_rule", why, 1)
				}
				if accepted != want {
					if accepted {
						r.Violation("accepted-invalid:"+why, fmt.Sprintf("block violating rule '%s' was appended: mutant %s (resealed=%v) of shape %d on path %v", why, f.m.name, f.resealed, k, path), c)
					} else {
						r.Violation("rejected-valid:"+f.m.name, fmt.Sprintf("block valid by the reference was rejected (%v): mutant %s (resealed=%v) of shape %d on path %v", got, f.m.name, f.resealed, k, path), c)
					}
				}
				if accepted {
					// undo by rebuilding the state from genesis
					n.Close()
					n, err = node.BuildPath(cfg, path)
					if err != nil {
						return
					}
					p.n = n
					n.DrainEvents()
					s0 = take(n)
					continue
				}
				s1 := take(n)
				ev := n.DrainEvents()
				if s1 != s0 || len(ev) > 0 || len(n.App.Faults) > 0 {
					r.Violation("rejected-block-changed-state:"+f.m.name, fmt.Sprintf("rejected mutant %s (resealed=%v, err=%v) of shape %d on path %v changed the node: db %s->%s tip-changed=%v heights %v->%v finalized %d->%d events %v app-root-changed=%v faults %v",
						f.m.name, f.resealed, got, k, path, s0.dump, s1.dump, s0.tip != s1.tip, s0.h, s1.h, s0.fin, s1.fin, ev, s0.root != s1.root, n.App.Faults), c)
					n.Close()
					n, _ = node.BuildPath(cfg, path)
					p.n = n
					s0 = take(n)
				}
			}
			// finally V itself must be accepted (on the possibly rebuilt node) and then removed again
			if err := n.Exec.VerifProcessValidated(node.CloneBlock(v), false); err != nil {
				r.Violation(fmt.Sprintf("valid-block-rejected:shape%d", k), fmt.Sprintf("valid successor of shape %d on path %v rejected: %v", k, path, err), caseT{path, k, "none", false})
			} else {
				r.Add("valid_blocks_accepted", 1)
				r.Add("transitions", 1)
			}
			// back to the canonical state of this path (deleting would leave the grown finalized marker behind)
			n.Close()
			if n, err = node.BuildPath(cfg, path); err != nil {
				return
			}
		}
		if i%37 == 0 {
			r.Sample(map[string]interface{}{"path": path, "mutants_per_valid_block": len(ms), "forms": "raw and re-sealed"})
		}
	})
	r.Set("traces_validated_against_impl", r.Get("transitions"))
	r.Set("mutation_alphabet_size", len(ms))
	r.Set("max_chain_length", K)
	r.Set("explanation", "states = menu paths built on a fresh real node; transitions = Validate+processValidated calls on mutants and on the valid successor; oracle = reference validity predicate (both directions) and full-state equality after every rejection")
	r.Finish()
}

// tieBreakRejections: a competitor of the tip (same height and parent, the other slot's generator, forged in the
// current slot while the tip was received outside its own slot) takes the tie-break path of process(). When the
// competitor is invalid - statically or only when executed - the node must be exactly as before.
func tieBreakRejections(r *vlib.Run, cfg node.Config, path []int, n *node.Node) bool {
	if len(path) == 0 {
		return false
	}
	aux, err := node.BuildPath(cfg, path[:len(path)-1])
	if err != nil {
		return false
	}
	defer aux.Close()
	tip := n.Tip().Header
	parentSlot := aux.Slot.GetSlotNumber(aux.Tip().Header.Timestamp)
	sh := node.MenuShape(1, tip.Height, 7)
	sh.SkipSlots = cfg.CurrentSlot - parentSlot - 1
	comp, err := aux.Forge(sh)
	if err == nil && bytes.Equal(comp.Header.GeneratorAddress, tip.GeneratorAddress) && comp.Header.MaxHeightPrevoted == tip.MaxHeightPrevoted {
		// the current slot belongs to the tip's own generator: a second block of that generator at the tip's height is
		// double forging and is discarded, even though its timing would win a tie break
		late := time.Unix(int64(tip.Timestamp)+int64(3*cfg.BlockTime), 0)
		n.Exec.VerifSetLastBlockReceived(&late)
		n.DrainEvents()
		s0 := take(n)
		c := caseT{path, -1, "double-forging-with-tie-break-timing", true}
		var perr error
		if p := vlib.Catch(func() { perr = n.Exec.VerifProcess(node.CloneBlockLoose(comp), "peer-1") }); p != "" {
			r.Violation("panic:double-forging-competitor", "panic while processing a double-forged competitor: "+p, c)
			return true
		}
		r.Add("transitions", 1)
		r.Add("double_forged_competitors_discarded", 1)
		s1 := take(n)
		ev := n.DrainEvents()
		n.Exec.VerifSetLastBlockReceived(nil)
		if s1 != s0 || len(ev) > 0 {
			r.Violation("double-forged-block-not-discarded", fmt.Sprintf("a second block of the tip's generator at the tip's height (later slot, received in time, tip received late, err=%v) on path %v was not discarded: tip changed=%v events %v", perr, path, s1.tip != s0.tip, ev), c)
			return true
		}
		return false
	}
	if err != nil || bytes.Equal(comp.Header.GeneratorAddress, tip.GeneratorAddress) || comp.Header.MaxHeightPrevoted != tip.MaxHeightPrevoted {
		r.Add("tie_break_competitor_not_constructible", 1)
		return false
	}
	kinds := []struct {
		name string
		f    func(b *blockchain.Block)
	}{
		{"transaction-root", func(b *blockchain.Block) { b.Header.TransactionRoot = rnd32(0x51); aux.Reseal(b, false) }},
		{"asset-root", func(b *blockchain.Block) { b.Header.AssetRoot = rnd32(0x52); aux.Reseal(b, false) }},
		{"transaction-signature-missing", func(b *blockchain.Block) {
			if len(b.Transactions) > 0 {
				b.Transactions[0].Signatures = nil
				b.Transactions[0].Init()
				aux.Reseal(b, true)
			} else {
				b.Header.TransactionRoot = rnd32(0x53)
				aux.Reseal(b, false)
			}
		}},
		{"state-root", func(b *blockchain.Block) { b.Header.StateRoot = rnd32(0x54); aux.Reseal(b, false) }},
		{"signature", func(b *blockchain.Block) { b.Header.Signature[9] ^= 4; b.Header.Init() }},
	}
	late := time.Unix(int64(tip.Timestamp)+int64(3*cfg.BlockTime), 0) // the tip was received outside its slot
	for _, kd := range kinds {
		b := node.CloneBlockLoose(comp)
		kd.f(b)
		n.Exec.VerifSetLastBlockReceived(&late)
		n.DrainEvents()
		s0 := take(n)
		c := caseT{path, -1, "tie-break:" + kd.name, true}
		var perr error
		if p := vlib.Catch(func() { perr = n.Exec.VerifProcess(b, "peer-1") }); p != "" {
			r.Violation("panic:tie-break:"+kd.name, "panic while processing an invalid tie-break competitor: "+p, c)
			return true
		}
		r.Add("transitions", 1)
		r.Add("tie_break_competitors_rejected", 1)
		s1 := take(n)
		ev := n.DrainEvents()
		if s1.tip != s0.tip {
			r.Violation("tie-break-invalid-competitor-changed-tip:"+kd.name, fmt.Sprintf("an invalid tie-break competitor (%s, err=%v) on path %v left the node on another tip", kd.name, perr, path), c)
			return true
		}
		// the failed-at-execution cases delete and re-apply the tip (same state, delete/new events); the statically
		// invalid ones must not touch anything
		static := kd.name == "transaction-root" || kd.name == "asset-root" || kd.name == "transaction-signature-missing"
		if s1 != s0 || (static && len(ev) > 0) {
			r.Violation("rejected-block-changed-state:tie-break:"+kd.name, fmt.Sprintf("an invalid tie-break competitor (%s, err=%v) on path %v changed the node: db %s->%s heights %v->%v finalized %d->%d events %v", kd.name, perr, path, s0.dump, s1.dump, s0.h, s1.h, s0.fin, s1.fin, ev), c)
			return true
		}
	}
	n.Exec.VerifSetLastBlockReceived(nil)
	return false
}
