// C18: peer penalties accumulate into bans that are enforced and expire.
// (a) breadth-first search over sequences of penalties / time advances / sweep ticks on the real connection
//
//	gater (virtual clock and virtual sweep ticker through the build overlay) against a score model;
//
// (b) traffic patterns through the real MessageProtocol.onRequest and rate limiter: malformed envelopes,
//
//	unknown procedures and rates above the limit are penalised, well-formed traffic within limits never is.
package main

import (
	"bytes"
	"context"
	"fmt"
	"os"
	"sort"
	"time"

	lcrypto "github.com/libp2p/go-libp2p/core/crypto"
	"github.com/libp2p/go-libp2p/core/host"
	"github.com/libp2p/go-libp2p/core/network"
	"github.com/libp2p/go-libp2p/core/peer"
	"github.com/libp2p/go-libp2p/core/protocol"
	ma "github.com/multiformats/go-multiaddr"

	"github.com/LiskHQ/lisk-engine/pkg/p2p"
	"github.com/LiskHQ/lisk-engine/pkg/verifrt/vclock"

	"verif/nolog"
	"verif/vlib"
)

const (
	expiry   = 1000 * time.Second
	interval = 10 * time.Second
)

var ips = []string{"/ip4/127.0.0.1/tcp/4001", "/ip6/::1/tcp/4001", "/ip4/10.0.0.1/tcp/4001", "/ip4/10.9.9.9/tcp/4001"}
var ipKey = []string{"127.0.0.1", "::1", "10.0.0.1", "10.9.9.9"}

const blacklisted = 3 // index of the permanently blacklisted IP

type opT struct {
	Kind   string `json:"kind"` // penalty | advance | tick
	IP     int    `json:"ip,omitempty"`
	Amount int    `json:"amount,omitempty"`
	Secs   int64  `json:"secs,omitempty"`
}

func (o opT) String() string {
	switch o.Kind {
	case "penalty":
		return fmt.Sprintf("penalty(%s,%d)", ipKey[o.IP], o.Amount)
	case "advance":
		return fmt.Sprintf("advance(%ds)", o.Secs)
	}
	return "sweep"
}

func alphabet() []opT {
	ops := []opT{}
	for ip := 0; ip < 3; ip++ {
		for _, a := range []int{10, 50, 100} {
			ops = append(ops, opT{Kind: "penalty", IP: ip, Amount: a})
		}
	}
	for _, s := range []int64{1, int64(expiry/time.Second) - 1, int64(expiry/time.Second) + 1, int64(interval / time.Second)} {
		ops = append(ops, opT{Kind: "advance", Secs: s})
	}
	ops = append(ops, opT{Kind: "tick"})
	return ops
}

type conn struct{ a ma.Multiaddr }

// the local end is our own, never-penalised address: the gates must look at the remote end
var localAddr, _ = ma.NewMultiaddr("/ip4/192.168.77.1/tcp/7000")

func (c conn) LocalMultiaddr() ma.Multiaddr  { return localAddr }
func (c conn) RemoteMultiaddr() ma.Multiaddr { return c.a }

// model of one IP
type ipModel struct {
	score      int
	banned     bool
	banUntil   int64 // unix seconds
	sweptAfter bool  // a sweep happened after the ban expired
}

type caseT struct {
	Ops  []string `json:"ops"`
	What string   `json:"what"`
}

func maddr(i int) ma.Multiaddr {
	a, err := ma.NewMultiaddr(ips[i])
	if err != nil {
		panic(err)
	}
	return a
}

// run executes a sequence on a fresh gater and returns the first disagreement with the model.
func run(seq []opT) (string, string) {
	base := time.Unix(1_700_000_000, 0)
	now := base
	vclock.Set(now)
	vclock.ResetTickers()
	g, err := p2p.VerifNewGater(nolog.L{}, expiry, interval, []string{ipKey[blacklisted]})
	if err != nil {
		return "harness", err.Error()
	}
	defer g.Stop()
	m := make([]ipModel, 3)
	check := func(step string) (string, string) {
		for ip := 0; ip < 4; ip++ {
			a := maddr(ip)
			got := g.Allowed(a)
			var must, mustNot bool
			if ip == blacklisted {
				mustNot = true
			} else {
				mi := m[ip]
				switch {
				case !mi.banned:
					must = true
				case now.Unix() <= mi.banUntil:
					mustNot = true
				case mi.sweptAfter:
					must = true
				}
			}
			if must && !got {
				return "refused-although-allowed", fmt.Sprintf("%s: connections from %s are refused although it is neither blacklisted nor under an active ban", step, ipKey[ip])
			}
			if mustNot && got {
				k := "allowed-although-banned"
				if ip == blacklisted {
					k = "allowed-although-blacklisted"
				}
				return k, fmt.Sprintf("%s: connections from %s are allowed although it is banned/blacklisted", step, ipKey[ip])
			}
			// every interception point agrees with the decision
			pid := peer.ID("p")
			if g.InterceptAddrDial(pid, a) != got || g.InterceptAccept(conn{a}) != got || g.InterceptSecured(network.DirInbound, pid, conn{a}) != got {
				return "intercept-points-disagree", fmt.Sprintf("%s: InterceptAddrDial/Accept/Secured(inbound) do not all equal %v for %s", step, got, ipKey[ip])
			}
			if !g.InterceptSecured(network.DirOutbound, pid, conn{a}) || !g.InterceptPeerDial(pid) {
				return "outbound-secured-refused", fmt.Sprintf("%s: InterceptSecured(outbound)/InterceptPeerDial refused", step)
			}
			if ip != blacklisted && m[ip].banned && m[ip].sweptAfter && now.Unix() > m[ip].banUntil {
				if sc := g.VerifScore(ipKey[ip]); sc > 0 {
					return "score-not-reset-after-expiry", fmt.Sprintf("%s: %s is accepted again but still carries score %d", step, ipKey[ip], sc)
				}
			}
		}
		return "", ""
	}
	if k, w := check("initially"); k != "" {
		return k, w
	}
	for i, o := range seq {
		switch o.Kind {
		case "penalty":
			mi := &m[o.IP]
			if mi.banned && !(mi.sweptAfter && now.Unix() > mi.banUntil) {
				return "", "skip" // further penalties during a ban are not specified
			}
			if mi.banned { // expired and swept: clean slate
				*mi = ipModel{}
			}
			sc, err := g.AddPenalty(maddr(o.IP), o.Amount)
			if err != nil {
				return "penalty-error", err.Error()
			}
			mi.score += o.Amount
			if sc != mi.score {
				return "score-differs", fmt.Sprintf("step %d %v: gater reports score %d, the penalties sum to %d", i, o, sc, mi.score)
			}
			if mi.score >= p2p.MaxPenaltyScore {
				mi.banned, mi.banUntil, mi.sweptAfter = true, now.Unix()+int64(expiry/time.Second), false
			}
		case "advance":
			now = now.Add(time.Duration(o.Secs) * time.Second)
			vclock.Set(now)
		case "tick":
			vclock.Tick()
			for ip := range m {
				if m[ip].banned && now.Unix() > m[ip].banUntil {
					m[ip].sweptAfter = true
				}
			}
		}
		if k, w := check(fmt.Sprintf("after step %d (%v)", i, o)); k != "" {
			return k, w
		}
	}
	banned := g.Banned()
	sort.Strings(banned)
	want := []string{}
	for ip := range m {
		if m[ip].banned && !(m[ip].sweptAfter && now.Unix() > m[ip].banUntil) {
			want = append(want, ipKey[ip])
		}
	}
	sort.Strings(want)
	if fmt.Sprint(banned) != fmt.Sprint(want) {
		return "banned-list-differs", fmt.Sprintf("listBannedPeers=%v, model=%v", banned, want)
	}
	return "", ""
}

// ---- part a2: blacklist configurations -----------------------------------------------------------------

// partA2: every blacklist spelling of an IP (canonical, upper case, expanded, IPv4-mapped) must block that IP at
// every interception point, permanently (before and after any time and sweep), and nothing else.
func partA2(r *vlib.Run) {
	type entry struct{ spelled, peer string }
	entries := []entry{
		{"10.9.9.9", "/ip4/10.9.9.9/tcp/4001"},
		{"2001:db8::1", "/ip6/2001:db8::1/tcp/4001"},
		{"2001:DB8::1", "/ip6/2001:db8::1/tcp/4001"},
		{"2001:0db8:0:0:0:0:0:1", "/ip6/2001:db8::1/tcp/4001"},
		{"2001:0db8:0000:0000:0000:0000:0000:0001", "/ip6/2001:db8::1/tcp/4001"},
		{"fd00:0:0:0:0:0:0:7", "/ip6/fd00::7/tcp/4001"},
		{"::ffff:10.9.8.7", "/ip4/10.9.8.7/tcp/4001"},
		{"::1", "/ip6/::1/tcp/4001"},
		{"0:0:0:0:0:0:0:1", "/ip6/::1/tcp/4001"},
	}
	other, _ := ma.NewMultiaddr("/ip4/10.1.1.1/tcp/4001")
	pid := remoteIDs[0]
	seen := map[string]bool{}
	configs := [][]int{}
	for i := range entries {
		configs = append(configs, []int{i})
		for j := i + 1; j < len(entries); j++ {
			configs = append(configs, []int{i, j})
		}
	}
	for _, cfgI := range configs {
		bl := []string{}
		for _, i := range cfgI {
			bl = append(bl, entries[i].spelled)
		}
		vclock.Set(time.Unix(1_700_000_000, 0))
		vclock.ResetTickers()
		g, err := p2p.VerifNewGater(nolog.L{}, expiry, interval, bl)
		if err != nil {
			r.Violation("blacklist-config-rejected", fmt.Sprintf("blacklist %v: %v", bl, err), caseT{bl, "blacklist"})
			continue
		}
		for round := 0; round < 2; round++ {
			for _, i := range cfgI {
				a, err := ma.NewMultiaddr(entries[i].peer)
				if err != nil {
					panic(err)
				}
				if g.Allowed(a) || g.InterceptAddrDial(pid, a) || g.InterceptAccept(conn{a}) || g.InterceptSecured(network.DirInbound, pid, conn{a}) {
					key := "blacklisted-ip-accepted"
					if !seen[key] {
						seen[key] = true
						r.Violation(key, fmt.Sprintf("blacklist %v (round %d): a connection involving %s is accepted at some interception point", bl, round, entries[i].peer), caseT{bl, "blacklist"})
					}
				}
			}
			if !g.Allowed(other) || !g.InterceptAccept(conn{other}) {
				if !seen["unlisted-ip-refused"] {
					seen["unlisted-ip-refused"] = true
					r.Violation("unlisted-ip-refused", fmt.Sprintf("blacklist %v: an IP that is not listed is refused", bl), caseT{bl, "blacklist"})
				}
			}
			vclock.Set(vclock.Now().Add(expiry + time.Hour))
			vclock.Tick()
			r.Add("transitions", 2)
		}
		g.Stop()
		r.Add("blacklist_configurations", 1)
	}
}

// ---- part b: traffic -----------------------------------------------------------------------------

type sink struct{ network.Stream }

func (sink) Write(b []byte) (int, error) { return len(b), nil }
func (sink) Close() error                { return nil }
func (sink) Reset() error                { return nil }

type fHost struct {
	host.Host
	closed *[]peer.ID
}

func (fHost) ID() peer.ID { return peer.ID("local") }
func (h fHost) Network() network.Network {
	return fNet{closed: h.closed}
}

// fNet records which peers the protocol disconnects.
type fNet struct {
	network.Network
	closed *[]peer.ID
}

func (n fNet) ClosePeer(p peer.ID) error { *n.closed = append(*n.closed, p); return nil }

func (fHost) NewStream(ctx context.Context, p peer.ID, pids ...protocol.ID) (network.Stream, error) {
	return sink{}, nil
}

type inStream struct {
	network.Stream
	r    *bytes.Reader
	from int
}

func (s *inStream) Read(b []byte) (int, error) { return s.r.Read(b) }
func (s *inStream) Close() error               { return nil }
func (s *inStream) Reset() error               { return nil }
func (s *inStream) Conn() network.Conn         { return inConn{from: s.from} }

type inConn struct {
	network.Conn
	from int
}

func (c inConn) RemotePeer() peer.ID { return remoteIDs[c.from%len(remoteIDs)] }

// valid libp2p peer IDs (the rate limiter builds a /p2p/<id> multiaddr from them)
var remoteIDs = func() []peer.ID {
	out := []peer.ID{}
	for i := 0; i < 4; i++ {
		seed := bytes.Repeat([]byte{byte(i + 1)}, 32)
		priv, _, err := lcrypto.GenerateEd25519Key(bytes.NewReader(seed))
		if err != nil {
			panic(err)
		}
		id, err := peer.IDFromPrivateKey(priv)
		if err != nil {
			panic(err)
		}
		out = append(out, id)
	}
	return out
}()

// sender sameIPFrom is a second peer (its own peer ID) behind the IP address of sender 0
const sameIPFrom = 2

func ipOf(from int) int {
	if from == sameIPFrom {
		return 0
	}
	return from
}

func (c inConn) RemoteMultiaddr() ma.Multiaddr { return maddr(ipOf(c.from)) }

func varint(x uint64) []byte {
	var b []byte
	for x >= 0x80 {
		b = append(b, byte(x)|0x80)
		x >>= 7
	}
	return append(b, byte(x))
}
func fb(n int, v []byte) []byte {
	return append(append(varint(uint64(n)<<3|2), varint(uint64(len(v)))...), v...)
}
func request(id, proc string, data []byte) []byte {
	return append(append(fb(1, []byte(id)), fb(2, []byte(proc))...), fb(3, data)...)
}

type traffic struct {
	Kind string `json:"kind"` // ok | malformed | unknown | interval
	From int    `json:"from"`
}

func partB(r *vlib.Run) {
	kinds := []string{"ok", "ok2", "malformed", "unknown", "interval"}
	depth := 5
	seqs := [][]traffic{}
	var gen func(p []traffic)
	gen = func(p []traffic) {
		if len(p) > 0 {
			seqs = append(seqs, append([]traffic{}, p...))
		}
		if len(p) == depth {
			return
		}
		for _, k := range kinds {
			froms := []int{0}
			if k != "interval" && len(p) < 2 {
				froms = []int{0, 1}
			}
			for _, f := range froms {
				gen(append(p, traffic{k, f}))
			}
		}
	}
	gen(nil)
	// two peers on one procedure, one step deeper: counters are per peer, what one peer does never changes another's
	var gen2 func(p []traffic)
	gen2 = func(p []traffic) {
		if len(p) == 6 {
			seqs = append(seqs, append([]traffic{}, p...))
			return
		}
		for _, f := range []int{0, 1} {
			gen2(append(p, traffic{"ok", f}))
		}
	}
	gen2(nil)
	// two peers behind one IP address (NAT, one host): penalties accumulate per IP, and whichever peer earns a penalty that
	// leaves the IP's total at or above the threshold is disconnected - also when the total was there already
	var gen3 func(p []traffic)
	gen3 = func(p []traffic) {
		if len(p) > 1 {
			seqs = append(seqs, append([]traffic{}, p...))
		}
		if len(p) == 4 {
			return
		}
		for _, k := range []string{"ok", "malformed", "unknown"} {
			for _, f := range []int{0, sameIPFrom} {
				gen3(append(p, traffic{k, f}))
			}
		}
	}
	gen3(nil)
	seen := map[string]bool{}
	for _, seq := range seqs {
		if r.Expired() {
			r.Cap("deadline in part b")
			return
		}
		vclock.Set(time.Unix(1_700_000_000, 0))
		vclock.ResetTickers()
		closed := []peer.ID{}
		mp, err := p2p.VerifNewMessageProtocol([]byte{1, 2, 3, 4}, "1.0", fHost{closed: &closed}, nolog.L{}, time.Second)
		if err != nil {
			panic(err)
		}
		_ = mp.RegisterRPCHandler("echo", func(w p2p.ResponseWriter, req *p2p.Request) { w.Write(req.Data) })
		_ = mp.RegisterRPCHandler("echo2", func(w p2p.ResponseWriter, req *p2p.Request) { w.Write(req.Data) })
		// procedures that see no traffic: the periodic reset has to reach every counter whatever the others hold
		for _, idle := range []string{"idle-a", "idle-b", "idle-c", "idle-d", "idle-e", "idle-f"} {
			_ = mp.RegisterRPCHandler(idle, func(w p2p.ResponseWriter, req *p2p.Request) {})
		}
		mp.VerifStart()
		_ = 0
		mp.VerifSetRateLimit("echo", 2, 10)
		mp.VerifSetRateLimit("echo2", 2, 10)
		stop := mp.VerifStartRateLimiter()
		vclock.WaitTickers(1)
		// model
		score := map[int]int{}     // per IP
		mustClose := map[int]bool{} // per sender: one of its penalties left its IP's total at or above the threshold
		inInterval := map[[2]int]int{} // (peer, procedure) -> requests in the current interval: limits are per procedure
		desc := []string{}
		bad := ""
		for i, t := range seq {
			desc = append(desc, fmt.Sprintf("%s<-%s/peer%d", t.Kind, ipKey[ipOf(t.From)], t.From))
			var msg []byte
			switch t.Kind {
			case "ok", "ok2":
				proc, pi := "echo", 0
				if t.Kind == "ok2" {
					proc, pi = "echo2", 1
				}
				msg = request(fmt.Sprintf("id-%d", i), proc, []byte{1})
				k := [2]int{t.From, pi}
				inInterval[k]++
				if inInterval[k] > 2 { // above the limit of 2 per interval and procedure: penalised, counter reset
					score[ipOf(t.From)] += 10
					inInterval[k] = 0
					if score[ipOf(t.From)] >= p2p.MaxPenaltyScore {
						mustClose[t.From] = true
					}
				}
			case "malformed":
				msg = []byte{0xff, 0xff, 0xff}
				score[ipOf(t.From)] += p2p.MaxPenaltyScore
				mustClose[t.From] = true
			case "unknown":
				msg = request(fmt.Sprintf("id-%d", i), "nope", nil)
				score[ipOf(t.From)] += p2p.MaxPenaltyScore
				mustClose[t.From] = true
			case "interval":
				vclock.Tick()
				inInterval = map[[2]int]int{}
				continue
			}
			if p := vlib.Catch(func() { mp.VerifOnRequest(context.Background(), &inStream{r: bytes.NewReader(msg), from: t.From}) }); p != "" {
				bad = "onRequest panics: " + p
				break
			}
			r.Add("requests_sent", 1)
		}
		stop()
		r.Add("transitions", int64(len(seq)))
		r.Add("traffic_sequences", 1)
		if bad != "" {
			if !seen["traffic-panic"] {
				seen["traffic-panic"] = true
				r.Violation("traffic-panic", bad+" after "+fmt.Sprint(desc), caseT{desc, "traffic"})
			}
			continue
		}
		got := mp.VerifScores()
		for from := 0; from < 3; from++ {
			g, ok := got[ipKey[ipOf(from)]]
			if !ok {
				g = 0
			}
			want := score[ipOf(from)]
			wasClosed := false
			for _, c := range closed {
				if c == remoteIDs[from] {
					wasClosed = true
				}
			}
			key := ""
			switch {
			case mustClose[from] && g >= p2p.MaxPenaltyScore && !wasClosed:
				key = "banned-but-not-disconnected"
			case !mustClose[from] && wasClosed:
				key = "disconnected-without-ban"
			case want == 0 && g != 0:
				key = "penalised-although-within-limits"
			case want > 0 && g == 0:
				key = "misbehaviour-not-penalised"
			case want != g && want < p2p.MaxPenaltyScore && g < p2p.MaxPenaltyScore:
				key = "penalty-amount-differs"
			case (want >= p2p.MaxPenaltyScore) != (g >= p2p.MaxPenaltyScore):
				key = "ban-threshold-disagrees"
			}
			if key != "" && !seen[key] {
				seen[key] = true
				r.Violation(key, fmt.Sprintf("after traffic %v the score of %s is %d, the model says %d; peer%d disconnected: %v, the model says %v", desc, ipKey[ipOf(from)], g, want, from, wasClosed, mustClose[from]), caseT{desc, "traffic"})
			}
		}
	}
}

func main() {
	r := vlib.Start("C18", "model_checking", 4*time.Minute, 20*time.Minute)
	r.Assume("the gater's and rate limiter's clock and tickers are virtual (clock seam through the build overlay); a sweep is delivered by firing the virtual ticker")
	r.Assume("only what the statement fixes is compared: further penalties during an active ban and the exact moment between expiry and the next sweep are left open")
	r.Assume("part c runs two real libp2p hosts on 127.0.0.1; its waits poll for the expected state with a 20 s deadline (synchronisation with libp2p's own goroutines), the verdict is the state reached")
	r.Assume("which sync request is invalid is decided by the sync handlers (property C19); here the penalty entry points they call (ApplyPenalty, BanPeer) are driven directly")
	ops := alphabet()
	depth := 4
	if r.Thorough() {
		depth = 5
	}
	seqs := [][]opT{}
	var gen func(p []opT)
	gen = func(p []opT) {
		if len(p) > 0 {
			seqs = append(seqs, append([]opT{}, p...))
		}
		if len(p) == depth {
			return
		}
		for _, o := range ops {
			gen(append(p, o))
		}
	}
	gen(nil)
	seen := map[string]bool{}
	r.RunSharded(len(seqs), func(i int) {
		if r.Expired() {
			r.Cap("deadline")
			return
		}
		seq := seqs[i]
		k, w := run(seq)
		if w == "skip" {
			r.Add("sequences_with_unspecified_step", 1)
			return
		}
		r.Add("states", 1)
		r.Add("transitions", int64(len(seq)))
		if k != "" && !seen[k] {
			seen[k] = true
			names := []string{}
			for _, o := range seq {
				names = append(names, o.String())
			}
			r.Violation(k, w+" | ops "+fmt.Sprint(names), caseT{names, "gater"})
		}
	})
	if r.Only == "" && !inWorker() {
		partA2(r)
		partB(r)
		partC(r)
	}
	r.Set("traces_validated_against_impl", r.Get("states")+r.Get("traffic_sequences")+r.Get("loopback_scenarios"))
	r.Set("depth", depth)
	r.Set("explanation", "(a) every sequence of <=depth operations over 9 penalties (3 IPs incl. IPv6 x 10/50/100), 4 time advances around the expiry and the sweep interval, and the sweep tick on the real connection gater, all interception points compared with the score model after every step; (b) every traffic sequence of <=5 messages over {well-formed on either of two procedures, malformed envelope, unknown procedure, end of rate interval} from two peers through the real onRequest and rate limiter (limit 2 per interval, penalty 10; six further procedures stay idle), disconnect calls recorded; (a2) every blacklist of one or two entries over 9 spellings (canonical, upper case, expanded, IPv4-mapped) blocks exactly the listed IPs at every interception point, before and after expiry time and sweep; (c) 11 loopback scenarios between two real libp2p hosts: each misbehaviour kind ends in disconnect + refusal in both directions until expiry, legal traffic and partial penalties do not, blacklisted IP refused permanently")
	r.Sample(caseT{[]string{"penalty(::1,50)", "penalty(::1,50)", "advance(1001s)", "sweep"}, "gater"})
	r.Finish()
}

func protocolID(s string) protocol.ID { return protocol.ID(s) }

func inWorker() bool { return os.Getenv("VERIF_WORKER") != "" }
