#!/bin/bash
# clock seam for the connection gater and the rate limiter: time.Now() -> vclock.Now(), time.NewTicker -> vclock.NewTicker
set -e
out="$1"
rm -rf "$out"; mkdir -p "$out/src/pkg/p2p"
python3 - "$out" <<'PY'
import json, os, sys
out = sys.argv[1]
mut = {}
mo = os.environ.get("VERIF_MUT_OVERLAY", "")
if mo and os.path.exists(mo):
    mut = json.load(open(mo))["Replace"]
rep = dict(mut)
for f in ["conngater.go", "ratelimit.go"]:
    src = "/repo/pkg/p2p/" + f
    s = open(mut.get(src, src)).read()
    s = s.replace("time.Now()", "vclock.Now()").replace("time.NewTicker(", "vclock.NewTicker(")
    # completion notice after the work of one tick (sweep / counter reset), so that the harness can wait for it
    if f == "conngater.go":
        old = "\t\t\t\t\tcg.mutex.Unlock()\n\t\t\t\tcase <-ctx.Done():"
        assert s.count(old) == 1, "sweep loop not found in conngater.go"
        s = s.replace(old, "\t\t\t\t\tcg.mutex.Unlock()\n\t\t\t\t\tvclock.Done()\n\t\t\t\tcase <-ctx.Done():")
    else:
        old = "\t\t\tt.Reset(rl.interval)\n"
        assert s.count(old) == 1, "reset loop not found in ratelimit.go"
        s = s.replace(old, old + "\t\t\tvclock.Done()\n")
    s = s.replace('import (', 'import (\n\tvclock "github.com/LiskHQ/lisk-engine/pkg/verifrt/vclock"', 1)
    dst = os.path.join(out, "src/pkg/p2p", f)
    open(dst, "w").write(s)
    rep[src] = os.path.abspath(dst)
rep["/repo/pkg/verifrt/vclock/vclock.go"] = "/verif/verifrt/vclock/vclock.go"
json.dump({"Replace": rep}, open(os.path.join(out, "overlay.json"), "w"), indent=1)
PY
