package main

// Part c: two real Connections (libp2p hosts on 127.0.0.1, ephemeral ports). For every misbehaviour kind the
// offender must be disconnected and refused in both directions until the ban expires (virtual clock + sweep
// tick), then accepted again with a clean score; legal traffic must leave the connection alone; a
// blacklisted IP is refused permanently. The waits below are synchronisation (poll until the expected
// state, generous deadline), the oracle is the state reached.

import (
	"context"
	"fmt"
	"time"

	"github.com/LiskHQ/lisk-engine/pkg/p2p"
	"github.com/LiskHQ/lisk-engine/pkg/verifrt/vclock"
	"github.com/libp2p/go-libp2p/core/host"
	"github.com/libp2p/go-libp2p/core/network"
	"github.com/libp2p/go-libp2p/core/peer"
	"github.com/libp2p/go-libp2p/p2p/net/swarm"
	"verif/nolog"
	"verif/vlib"
)

type lbCase struct {
	Kind      string `json:"kind"`
	Blacklist bool   `json:"blacklist,omitempty"`
}

const settle = 20 * time.Second

func waitFor(cond func() bool) bool {
	deadline := time.Now().Add(settle)
	for time.Now().Before(deadline) {
		if cond() {
			return true
		}
		time.Sleep(5 * time.Millisecond)
	}
	return cond()
}

func mkConn(seed string, blacklist []string, limit, penalty int) *p2p.Connection {
	c := p2p.NewConnection(nolog.L{}, &p2p.Config{Addresses: []string{"/ip4/127.0.0.1/tcp/0"}, ChainID: []byte{1, 2, 3, 4}, Version: "1.0", BlacklistedIPs: blacklist})
	opts := []p2p.RPCHandlerOption{}
	if limit > 0 {
		opts = append(opts, p2p.WithRPCMessageCounter(limit, penalty))
	}
	if err := c.RegisterRPCHandler("echo", func(w p2p.ResponseWriter, req *p2p.Request) { w.Write(req.Data) }, opts...); err != nil {
		panic(err)
	}
	if err := c.Start([]byte(seed)); err != nil {
		panic(err)
	}
	return c
}

func clearBackoff(h host.Host, id peer.ID) {
	if sw, ok := h.Network().(*swarm.Swarm); ok {
		sw.Backoff().Clear(id)
	}
}

func dial(from, to host.Host) error {
	clearBackoff(from, to.ID())
	ctx, cancel := context.WithTimeout(context.Background(), settle)
	defer cancel()
	return from.Connect(ctx, peer.AddrInfo{ID: to.ID(), Addrs: to.Addrs()})
}

func connected(c *p2p.Connection, id peer.ID) bool {
	return c.VerifHost().Network().Connectedness(id) == network.Connected
}

func raw(from, to host.Host, proto string, payload []byte) error {
	ctx, cancel := context.WithTimeout(context.Background(), settle)
	defer cancel()
	s, err := from.NewStream(ctx, to.ID(), protocolID(proto))
	if err != nil {
		return err
	}
	if _, err := s.Write(payload); err != nil {
		return err
	}
	return s.Close()
}

// lbKinds: what the remote peer B does to A, whether it must end in a ban, and the score left otherwise.
var lbKinds = []struct {
	kind string
	ban  bool
}{
	{"ok-within-limit", false},
	{"rate-partial", false},
	{"penalty-50", false},
	{"malformed-request", true},
	{"unknown-procedure-request", true},
	{"malformed-response", true},
	{"unknown-procedure-response", true},
	{"rate-exceeded", true},
	{"penalty-50+50", true},
	{"ban-call", true},
}

func partC(r *vlib.Run) {
	vclock.Reset()
	report := func(key, what string, c lbCase) {
		r.Violation(key, what, c)
	}
	for _, k := range lbKinds {
		if r.Expired() {
			r.Cap("deadline in part c")
			return
		}
		c := lbCase{Kind: k.kind}
		if p := vlib.Catch(func() { loopbackScenario(r, k.kind, k.ban, c, report) }); p != "" {
			report("loopback-panic:"+k.kind, "panic in loopback scenario: "+p, c)
		}
		r.Add("loopback_scenarios", 1)
	}
	// blacklist: refused in both directions, before and after any amount of time
	c := lbCase{Kind: "blacklisted", Blacklist: true}
	if p := vlib.Catch(func() {
		vclock.Reset()
		vclock.ResetTickers()
		a := mkConn("seed-a", []string{"127.0.0.1"}, 0, 0)
		b := mkConn("seed-b", nil, 0, 0)
		defer a.Stop()
		defer b.Stop()
		ha, hb := a.VerifHost(), b.VerifHost()
		for round := 0; round < 2; round++ {
			if err := dial(hb, ha); err == nil && connected(a, hb.ID()) {
				report("blacklisted-inbound-accepted", fmt.Sprintf("round %d: a peer from a blacklisted IP connected", round), c)
			}
			if err := dial(ha, hb); err == nil {
				report("blacklisted-outbound-dialled", fmt.Sprintf("round %d: dialling a blacklisted IP succeeded", round), c)
			}
			vclock.Set(time.Now().Add(49 * time.Hour))
			vclock.Tick()
			r.Add("transitions", 3)
		}
		vclock.Reset()
	}); p != "" {
		report("loopback-panic:blacklisted", "panic in loopback scenario: "+p, c)
	}
	r.Add("loopback_scenarios", 1)
}

func loopbackScenario(r *vlib.Run, kind string, ban bool, c lbCase, report func(key, what string, c lbCase)) {
	vclock.Reset()
	vclock.ResetTickers()
	limit, penalty := 0, 0
	switch kind {
	case "rate-exceeded":
		limit, penalty = 2, 100
	case "rate-partial", "ok-within-limit":
		limit, penalty = 2, 50
	}
	a := mkConn("seed-a", nil, limit, penalty)
	b := mkConn("seed-b", nil, 0, 0)
	defer func() { vclock.Reset(); a.Stop(); b.Stop() }()
	ha, hb := a.VerifHost(), b.VerifHost()
	if err := dial(hb, ha); err != nil {
		panic("cannot connect the two loopback hosts: " + err.Error())
	}
	if !waitFor(func() bool { return connected(a, hb.ID()) }) {
		panic("loopback hosts not connected")
	}
	req := func(n int) {
		for i := 0; i < n; i++ {
			ctx, cancel := context.WithTimeout(context.Background(), settle)
			res := b.RequestFrom(ctx, ha.ID(), "echo", []byte{byte(i)})
			cancel()
			_ = res
			r.Add("requests_sent", 1)
		}
	}
	reqProto, resProto := string(a.VerifReqProtocol()), string(a.VerifResProtocol())
	switch kind {
	case "ok-within-limit":
		req(2)
	case "rate-partial":
		req(3) // third request is above the limit of 2: penalty 50, no ban
	case "rate-exceeded":
		req(3) // penalty 100
	case "penalty-50":
		a.ApplyPenalty(hb.ID(), 50)
	case "penalty-50+50":
		a.ApplyPenalty(hb.ID(), 50)
		a.ApplyPenalty(hb.ID(), 50)
	case "ban-call":
		a.BanPeer(hb.ID())
	case "malformed-request":
		_ = raw(hb, ha, reqProto, []byte{0xff, 0xff, 0xff})
	case "unknown-procedure-request":
		_ = raw(hb, ha, reqProto, request("id-1", "nope", nil))
	case "malformed-response":
		_ = raw(hb, ha, resProto, []byte{0xff, 0xff, 0xff})
	case "unknown-procedure-response":
		_ = raw(hb, ha, resProto, request("id-1", "nope", nil))
	}
	r.Add("transitions", 1)
	addrB := hb.Addrs()[0]
	if !ban {
		// legal traffic or a partial penalty: still connected, still accepted. The request/penalty calls above
		// are synchronous on A's side (the echo answer came back, ApplyPenalty returned).
		if !connected(a, hb.ID()) {
			report("disconnected-without-ban:"+kind, "the peer was disconnected although its score is below the threshold", c)
		}
		if !a.VerifAllowed(addrB) {
			report("refused-without-ban:"+kind, "the peer's IP is refused although its score is below the threshold", c)
		}
		return
	}
	if !waitFor(func() bool { return !a.VerifAllowed(addrB) }) {
		report("misbehaviour-not-banned:"+kind, "the offender's IP is still accepted by the gater", c)
		return
	}
	if !waitFor(func() bool { return !connected(a, hb.ID()) }) {
		report("banned-but-still-connected:"+kind, "the offender is banned but its connection was not closed", c)
	}
	// refused in both directions while the ban lasts (also just before expiry)
	for _, adv := range []time.Duration{0, 24*time.Hour - 5*time.Second} {
		if adv > 0 {
			vclock.Set(time.Now().Add(adv))
			vclock.Tick()
		}
		_ = waitFor(func() bool { return !connected(b, ha.ID()) })
		if err := dial(hb, ha); err == nil && connected(a, hb.ID()) {
			report("banned-inbound-accepted:"+kind, fmt.Sprintf("+%v: the banned peer reconnected", adv), c)
		}
		if err := dial(ha, hb); err == nil {
			report("banned-outbound-dialled:"+kind, fmt.Sprintf("+%v: dialling the banned peer succeeded", adv), c)
		}
		r.Add("transitions", 3)
	}
	// expiry + sweep: accepted again, clean score (a penalty of 50 does not ban again)
	vclock.Set(time.Now().Add(24*time.Hour + 5*time.Second))
	vclock.Tick()
	if !a.VerifAllowed(addrB) {
		report("ban-does-not-expire:"+kind, "after expiry and a sweep the IP is still refused", c)
		return
	}
	if err := dial(hb, ha); err != nil || !waitFor(func() bool { return connected(a, hb.ID()) }) {
		report("ban-does-not-expire:"+kind, fmt.Sprintf("after expiry and a sweep the peer cannot reconnect: %v", err), c)
		return
	}
	a.ApplyPenalty(hb.ID(), 50)
	if !a.VerifAllowed(addrB) || !connected(a, hb.ID()) {
		report("score-not-clean-after-expiry:"+kind, "a penalty of 50 after the ban expired bans the peer again", c)
	}
	r.Add("transitions", 3)
}
