#!/bin/bash
set -e
cd /verif
export GOFLAGS=-mod=mod GOPROXY=off GOSUMDB=off GOTOOLCHAIN=local
go build -o bin/vinstr ./tools/vinstr
./bin/vinstr -out "$1" -chan pkg/p2p/message_protocol.go
