#!/bin/bash
set -e
cd /verif
export GOFLAGS=-mod=mod GOPROXY=off GOSUMDB=off GOTOOLCHAIN=local
go build -o bin/vinstr ./tools/vinstr
./bin/vinstr -out "$1" -chan pkg/p2p/message_protocol.go
# clock seam: message.go stamps (and, after some changes, derives identifiers from) time.Now(); the harness pins it
python3 - "$1" <<'PY'
import json, os, sys
out = sys.argv[1]
ov = json.load(open(os.path.join(out, "overlay.json")))
rep = ov["Replace"]
mut = {}
mo = os.environ.get("VERIF_MUT_OVERLAY", "")
if mo and os.path.exists(mo):
    mut = json.load(open(mo))["Replace"]
src = "/repo/pkg/p2p/message.go"
s = open(rep.get(src, mut.get(src, src))).read()
assert "time.Now()" in s, "message.go no longer reads time.Now()"
s = s.replace("time.Now()", "vclock.Now()")
s = s.replace('import (', 'import (\n\tvclock "github.com/LiskHQ/lisk-engine/pkg/verifrt/vclock"', 1)
if "time." not in s.replace('"time"', ''):
    s = s.replace('\t"time"\n', '', 1)
os.makedirs(os.path.join(out, "src/pkg/p2p"), exist_ok=True)
dst = os.path.join(out, "src/pkg/p2p/message.go")
open(dst, "w").write(s)
rep[src] = os.path.abspath(dst)
rep["/repo/pkg/verifrt/vclock/vclock.go"] = "/verif/verifrt/vclock/vclock.go"
json.dump(ov, open(os.path.join(out, "overlay.json"), "w"), indent=1)
PY
