// C17: P2P request/response — correct correlation, no lost replies, no deadlock, no leaked pending entry.
// The real message_protocol.go (channels, select, time.After, resMu instrumented) runs over an in-memory
// transport whose deliveries, the timeout timers and the cancellation are schedulable events.
package main

import (
	"time"

	"github.com/LiskHQ/lisk-engine/pkg/verifrt/vclock"

	"verif/conc"
	"verif/concrun"
	"verif/vlib"
)

func scenarios(maxTimeouts int) []concrun.Scenario {
	out := []concrun.Scenario{}
	for _, s := range conc.P2PScenarios(maxTimeouts) {
		out = append(out, concrun.Scenario{Name: s.Name, Body: s.Body(3 * time.Second), Free: s.Body(150 * time.Millisecond)})
	}
	return out
}

func main() {
	r := vlib.Start("C17", "model_checking", 100*time.Second, 25*time.Minute)
	mt := 1
	if r.Thorough() {
		mt = 2
	}
	// the wall clock read by message.go (message timestamps) is behind the clock seam and pinned
	vclock.Set(time.Unix(1_700_000_000, 0))
	sc := scenarios(mt)
	concrun.IsRacePass(r, sc)
	r.Assume("the transport is an in-memory model: every stream hand-off is an asynchronous, schedulable delivery; responses may be duplicated; the real libp2p transport is not explored")
	r.Assume("a timeout timer may fire at any point of the schedule; 'arrives before the deadline' = the response was handed to the requester's node before any timer fired after the request was delivered")
	r.Assume("sequential consistency; message IDs are random UUIDs that do not influence control flow; the wall clock read by message.go is pinned (clock seam), so all messages of one execution carry the same timestamp")
	bound := 2
	if r.Thorough() {
		bound = 3
	}
	if r.ReplayPath != "" {
		concrun.Replay(r, sc)
		r.Finish()
	}
	concrun.Explore(r, sc, bound)
	if r.Only == "" {
		iters := 30
		if r.Thorough() {
			iters = 200
		}
		concrun.RacePass(r, "c17", iters)
	}
	r.Set("states", r.Get("transitions"))
	r.Set("traces_validated_against_impl", r.Get("executions"))
	r.Set("preemption_bound_completed", bound)
	r.Set("explanation", "stateless exploration of the real instrumented request/response layer between two in-process peers; transitions = schedule points executed; each execution runs until every requester returned and every in-flight delivery finished (or deadlock)")
	r.Finish()
}
