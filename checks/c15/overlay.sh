#!/bin/bash
# clock seam for the generator: time.Now() -> vclock.Now() in generator.go (copy in the overlay only)
set -e
out="$1"
rm -rf "$out"; mkdir -p "$out/src/pkg/generator"
src=/repo/pkg/generator/generator.go
python3 - "$src" "$out" <<'PY'
import json, os, sys
src, out = sys.argv[1], sys.argv[2]
mut = {}
mo = os.environ.get("VERIF_MUT_OVERLAY", "")
if mo and os.path.exists(mo):
    mut = json.load(open(mo))["Replace"]
s = open(mut.get(src, src)).read()
assert "time.Now()" in s
s = s.replace("time.Now()", "vclock.Now()")
s = s.replace('import (', 'import (\n\tvclock "github.com/LiskHQ/lisk-engine/pkg/verifrt/vclock"', 1)
dst = os.path.join(out, "src/pkg/generator/generator.go")
open(dst, "w").write(s)
rep = dict(mut)
rep[src] = os.path.abspath(dst)
rep["/repo/pkg/verifrt/vclock/vclock.go"] = "/verif/verifrt/vclock/vclock.go"
json.dump({"Replace": rep}, open(os.path.join(out, "overlay.json"), "w"), indent=1)
PY
