// C15: generated blocks are valid and a generator never contradicts itself.
// (a) transaction selection against a reference greedy over every small pool;
// (b) every forged block is accepted by the same node's validation (roots, aggregate commit, validator change);
// (c) every sequence of forge / competing block / delete / generator restart up to depth D: headers returned
//
//	by forge are pairwise non-contradicting, the persisted info is the last header, maxHeightGenerated is
//	the largest height ever generated; (d) crash points of the generator-DB write.
package main

import (
	"bytes"
	"context"
	"fmt"
	"os"
	"sort"
	"time"

	"github.com/cockroachdb/pebble"
	"github.com/cockroachdb/pebble/vfs"

	"github.com/LiskHQ/lisk-engine/pkg/blockchain"
	"github.com/LiskHQ/lisk-engine/pkg/consensus"
	"github.com/LiskHQ/lisk-engine/pkg/consensus/certificate"
	"github.com/LiskHQ/lisk-engine/pkg/db"
	"github.com/LiskHQ/lisk-engine/pkg/engine/config"
	"github.com/LiskHQ/lisk-engine/pkg/generator"
	"github.com/LiskHQ/lisk-engine/pkg/txpool"
	"github.com/LiskHQ/lisk-engine/pkg/verifrt/vclock"

	"verif/crashfs"
	"verif/node"
	"verif/nolog"
	"verif/poolfx"
	"verif/ref"
	"verif/vlib"
)

// capture wraps the real Executer: AddInternal hands the block to the harness instead of the process queue.
type capture struct {
	*consensus.Executer
	got    []*blockchain.Block
	onHand func(b *blockchain.Block)
}

func (c *capture) AddInternal(b *blockchain.Block) {
	c.got = append(c.got, b)
	if c.onHand != nil {
		c.onHand(b)
	}
}

type world struct {
	n      *node.Node
	cons   *capture
	gen    *generator.Generator
	gdb    *db.DB
	gfs    vfs.FS
	pool   *txpool.TransactionPool
	cfg    *config.Config
	genIx  int // validator index whose keys are enabled
	onHand func(b *blockchain.Block)
}

func genConfig(n *node.Node) *config.Config {
	c := &config.Config{}
	_ = c.InsertDefault()
	c.Genesis.BlockTime = n.Cfg.BlockTime
	c.Genesis.MaxTransactionsSize = n.Cfg.MaxPayload
	return c
}

func (w *world) startGenerator() error {
	w.cons = &capture{Executer: w.n.Exec, onHand: w.onHand}
	w.gen = generator.NewGenerator(&generator.GeneratorParams{Consensus: w.cons, ABI: w.n.App, Pool: w.pool, Chain: w.n.Chain})
	if err := w.gen.Init(&generator.GeneratorInitParams{CTX: context.Background(), Cfg: w.cfg, Logger: nolog.L{}, BlockchainDB: w.n.DB, GeneratorDB: w.gdb}); err != nil {
		return err
	}
	k := node.KeysOf(w.genIx)
	w.gen.EnableGeneration(k.Address, &generator.PlainKeys{GeneratorKey: k.EdPub, GeneratorPrivateKey: k.EdPriv, BLSKey: k.BLSPub, BLSPrivateKey: k.BLSPriv})
	return nil
}

func openGenDB(fs vfs.FS) *db.DB {
	d, err := db.VerifOpen("", &pebble.Options{FS: fs, MemTableSize: 256 << 10, DisableAutomaticCompactions: true})
	if err != nil {
		panic(err)
	}
	return d
}

func newWorld(cfg node.Config, gfs vfs.FS) *world {
	n, err := node.New(cfg)
	if err != nil {
		panic(err)
	}
	if gfs == nil {
		gfs = vfs.NewMem()
	}
	w := &world{n: n, gfs: gfs, gdb: openGenDB(gfs), genIx: 0}
	w.pool = poolfx.NewPool(poolfx.PoolCfg{Max: 64, PerSender: 8, ReplaceDiff: 1})
	w.cfg = genConfig(n)
	if err := w.startGenerator(); err != nil {
		panic(err)
	}
	return w
}

func (w *world) close() {
	w.n.Close()
	_ = w.gdb.Close()
	vclock.Reset()
}

// nextSlotOf returns the first slot after the tip's slot that belongs to validator index v at the next height.
func (w *world) nextSlotOf(v int) int {
	store := w.n.Exec.VerifConsensusStore()
	gens, err := w.n.Exec.GetGeneratorKeys(store, w.n.Tip().Header.Height+1)
	if err != nil {
		return -1
	}
	tipSlot := w.n.Slot.GetSlotNumber(w.n.Tip().Header.Timestamp)
	for s := tipSlot + 1; s < tipSlot+1+2*len(gens); s++ {
		if bytes.Equal(gens[s%len(gens)].Address(), node.KeysOf(v).Address) {
			return s
		}
	}
	return -1
}

// forge sets the virtual clock into validator genIx's next slot and runs the real forge step.
func (w *world) forge() *blockchain.Block {
	s := w.nextSlotOf(w.genIx)
	if s < 0 {
		return nil
	}
	vclock.Set(time.Unix(int64(w.n.Slot.GetSlotTime(s))+int64(w.n.Cfg.BlockTime)/2, 0))
	before := len(w.cons.got)
	w.gen.VerifForge()
	if len(w.cons.got) == before {
		return nil
	}
	return w.cons.got[len(w.cons.got)-1]
}

type caseT struct {
	Part string   `json:"part"`
	Ops  []string `json:"ops,omitempty"`
	Pool []string `json:"pool,omitempty"`
	Max  int      `json:"maxSize,omitempty"`
	K    int      `json:"crash_at,omitempty"`
}

// ---- (a) selection reference -------------------------------------------------------------------

type ptx struct {
	sender int
	nonce  uint64
	fee    uint64
	script byte
	pad    int
}

func (p ptx) tx(chainID []byte) *blockchain.Transaction {
	sc := append([]byte{p.script}, make([]byte, p.pad)...)
	return node.MakeTx(chainID, node.TxSpec{Sender: p.sender, Nonce: p.nonce, Fee: p.fee, Script: sc})
}

func (p ptx) String() string {
	return fmt.Sprintf("s%d/n%d/f%d/v%d/pad%d", p.sender, p.nonce, p.fee, p.script, p.pad)
}

// acceptable returns every selection the greedy rule allows (ties between equal fee priorities in any order).
func acceptable(txs []*blockchain.Transaction, maxSize int) map[string]bool {
	bySender := map[string][]*blockchain.Transaction{}
	for _, t := range txs {
		bySender[string(t.SenderAddress())] = append(bySender[string(t.SenderAddress())], t)
	}
	for k := range bySender {
		l := bySender[k]
		sort.Slice(l, func(i, j int) bool { return l[i].Nonce < l[j].Nonce })
	}
	out := map[string]bool{}
	var rec func(live map[string][]*blockchain.Transaction, picked []string, total int)
	rec = func(live map[string][]*blockchain.Transaction, picked []string, total int) {
		if len(live) == 0 {
			out[fmt.Sprint(picked)] = true
			return
		}
		best := uint64(0)
		first := true
		for _, l := range live {
			p := l[0].Fee / uint64(l[0].Size())
			if first || p > best {
				best, first = p, false
			}
		}
		for s, l := range live {
			t := l[0]
			if t.Fee/uint64(t.Size()) != best {
				continue
			}
			if t.Size()+total > maxSize {
				out[fmt.Sprint(picked)] = true // the selection stops at the first transaction that does not fit
				continue
			}
			nl := map[string][]*blockchain.Transaction{}
			for k, v := range live {
				nl[k] = v
			}
			bad := len(t.Params) > 0 && (t.Params[0] == 1 || t.Params[0] == 3 || t.Params[0] == 6 || t.Params[0] == 0xEE)
			if bad {
				delete(nl, s)
				rec(nl, picked, total)
				continue
			}
			if len(l) == 1 {
				delete(nl, s)
			} else {
				nl[s] = l[1:]
			}
			rec(nl, append(append([]string{}, picked...), fmt.Sprintf("%x", t.ID[:4])), total+t.Size())
		}
	}
	rec(bySender, nil, 0)
	return out
}

func partA(r *vlib.Run) {
	cfg := node.MenuConfig()
	w := newWorld(cfg, nil)
	defer w.close()
	slots := [][2]int{{0, 0}, {0, 1}, {1, 0}, {1, 1}}
	fees := []uint64{40000, 90000, 200000}
	scripts := []byte{0, 1, 3, 6}
	pads := []int{0, 120}
	if !r.Thorough() {
		scripts = []byte{0, 1, 3}
	}
	variants := []ptx{}
	for _, f := range fees {
		for _, s := range scripts {
			for _, p := range pads {
				variants = append(variants, ptx{fee: f, script: s, pad: p})
			}
		}
	}
	hdr := &blockchain.BlockHeader{Version: 2, Height: w.n.Tip().Header.Height + 1, Timestamp: w.n.Slot.GetSlotTime(1), PreviousBlockID: w.n.Tip().Header.ID,
		GeneratorAddress: node.KeysOf(0).Address, AggregateCommit: &blockchain.AggregateCommit{AggregationBits: []byte{}, CertificateSignature: []byte{}}}
	var rec func(i int, pool []ptx)
	n := 0
	rec = func(i int, pool []ptx) {
		if i == len(slots) {
			if len(pool) == 0 {
				return
			}
			if r.Expired() {
				r.Cap("deadline in part a")
				return
			}
			txs := []*blockchain.Transaction{}
			desc := []string{}
			for _, p := range pool {
				txs = append(txs, p.tx(cfg.ChainID))
				desc = append(desc, p.String())
			}
			for _, maxSize := range []int{10000, 420, 250} {
				n++
				r.Add("selections", 1)
				var got []*blockchain.Transaction
				var err error
				c := caseT{Part: "a", Pool: desc, Max: maxSize}
				if p := vlib.Catch(func() { got, err = w.gen.VerifSelectTransactionsByFee(w.n.App, hdr, txs, maxSize) }); p != "" {
					r.Violation("selection-panics", fmt.Sprintf("selectTransactionsByFee panics for pool %v (limit %d): %s", desc, maxSize, p), c)
					continue
				}
				if err != nil {
					r.Violation("selection-error", err.Error(), c)
					continue
				}
				ids := []string{}
				size := 0
				lastNonce := map[string]uint64{}
				for _, t := range got {
					ids = append(ids, fmt.Sprintf("%x", t.ID[:4]))
					size += t.Size()
					if ln, ok := lastNonce[string(t.SenderAddress())]; ok && t.Nonce <= ln {
						r.Violation("selection-nonce-order", fmt.Sprintf("selected transactions of one sender are not in ascending nonce order for pool %v", desc), c)
					}
					lastNonce[string(t.SenderAddress())] = t.Nonce
				}
				if size > maxSize {
					r.Violation("selection-exceeds-size-limit", fmt.Sprintf("selected %d bytes with a limit of %d for pool %v", size, maxSize, desc), c)
				}
				if acc := acceptable(txs, maxSize); !acc[fmt.Sprint(ids)] {
					r.Violation("selection-differs-from-greedy", fmt.Sprintf("selected %v from pool %v (limit %d); the fee-priority greedy allows %v", ids, desc, maxSize, keys(acc)), c)
				}
				if len(got) > 0 && len(got) < len(txs) {
					r.Add("selections_partial", 1)
				}
			}
			return
		}
		rec(i+1, pool)
		for _, v := range variants {
			v.sender, v.nonce = slots[i][0], uint64(slots[i][1])
			rec(i+1, append(append([]ptx{}, pool...), v))
		}
	}
	rec(0, nil)
	r.Sample(caseT{Part: "a", Pool: []string{"s0/n0/f90000/v0/pad0", "s0/n1/f200000/v1/pad120", "s1/n0/f40000/v0/pad0"}, Max: 420})
}

func keys(m map[string]bool) []string {
	o := []string{}
	for k := range m {
		o = append(o, k)
	}
	sort.Strings(o)
	return o
}

// ---- (b) forged blocks are accepted ------------------------------------------------------------

func partB(r *vlib.Run) {
	pools := [][]ptx{
		{},
		{{0, 0, 100000, 0, 0}},
		{{0, 0, 100000, 0, 0}, {0, 1, 300000, 2, 0}, {1, 0, 50000, 0, 30}},
		{{0, 0, 100000, 1, 0}, {1, 0, 90000, 0, 0}},
		{{2, 0, 100000, 9, 0}},
		{{0, 0, 100000, 0, 0}, {2, 0, 90000, 9, 0}, {1, 0, 80000, 0xEE, 0}},
		// a transaction that verifies but executes as invalid while reporting events: skipped, nothing of it in the roots
		{{0, 0, 100000, 6, 0}, {1, 0, 90000, 0, 0}},
		// a transaction whose verification answers "pending" (nonce ahead of the account): skipped with its sender
		{{0, 0, 100000, 3, 0}, {0, 1, 95000, 0, 0}, {1, 0, 90000, 0, 0}},
		{{0, 0, 100000, 0, 0}, {0, 1, 90000, 6, 0}, {1, 0, 50000, 0, 0}},
	}
	for _, firstShape := range []int{0, 5} { // 5: the first block re-weights the validators (new BFT parameters from the next height)
		for prefix := 0; prefix <= 7; prefix++ {
			if firstShape == 0 && prefix > 5 {
				continue
			}
			if firstShape == 5 && prefix == 0 {
				continue
			}
			for pi, pool := range pools {
				if firstShape == 5 && pi > 1 {
					continue // the parameter-change prefixes are about the aggregate commit: empty and one-transaction pools
				}
				for _, withCerts := range []bool{false, true} {
					cfg := node.MenuConfig()
					w := newWorld(cfg, nil)
					ok := true
					// prefix: blocks of the other validator come from the fixture's forger, blocks of the generator's own
					// validator from the generator itself (its database must know every header it signed)
					for i := 0; i < prefix && ok; i++ {
						if i%2 == 0 {
							s := w.nextSlotOf(1)
							tipSlot := w.n.Slot.GetSlotNumber(w.n.Tip().Header.Timestamp)
							sh := node.MenuShape([]int{firstShape, 2, 0, 1, 0, 0, 0, 0}[i], w.n.Tip().Header.Height+1, 0)
							sh.SkipSlots = s - tipSlot - 1
							if _, err := w.n.Apply(sh); err != nil {
								ok = false
							}
						} else {
							b := w.forge()
							if b == nil || b.Validate() != nil || w.n.Exec.VerifProcessValidated(b, false) != nil {
								ok = false
							}
						}
					}
					if !ok {
						w.close()
						continue
					}
					desc := []string{}
					for _, p := range pool {
						sc := []byte{p.script}
						if p.script == 9 {
							sc = []byte{9, 0}
						}
						t := node.MakeTx(cfg.ChainID, node.TxSpec{Sender: p.sender, Nonce: p.nonce + uint64(prefix)*10, Fee: p.fee, Script: append(sc, make([]byte, p.pad)...)})
						w.pool.Add(t)
						desc = append(desc, p.String())
					}
					// promote so that the generator sees them as processable
					w.pool.VerifReorg()
					if withCerts {
						_, pre, cert := w.n.BFTHeights()
						for h := cert + 1; h <= pre; h++ {
							hd, err := w.n.Chain.DataAccess().GetBlockHeaderByHeight(h)
							if err != nil {
								continue
							}
							for _, v := range []int{0, 1} {
								k := node.KeysOf(v)
								w.n.Exec.VerifPool().Add(certificate.NewSingleCommit(hd, k.Address, cfg.ChainID, k.BLSPriv))
							}
						}
					}
					c := caseT{Part: "b", Pool: desc, Ops: []string{fmt.Sprintf("prefix=%d certs=%v pool#%d", prefix, withCerts, pi)}}
					r.Add("forge_attempts", 1)
					var b *blockchain.Block
					if p := vlib.Catch(func() { b = w.forge() }); p != "" {
						r.Violation("forge-panics", fmt.Sprintf("forge panics with pool %v after %d blocks: %s", desc, prefix, p), c)
						w.close()
						continue
					}
					if b == nil {
						r.Violation("forge-produces-nothing", fmt.Sprintf("forge produced no block in the generator's own slot (pool %v, %d blocks, certs %v)", desc, prefix, withCerts), c)
						w.close()
						continue
					}
					r.Add("blocks_forged", 1)
					if !b.Header.AggregateCommit.Empty() {
						r.Add("blocks_forged_with_aggregate_commit", 1)
					}
					r.Add("transactions_in_forged_blocks", int64(len(b.Transactions)))
					err := b.Validate()
					if err == nil {
						err = w.n.Exec.VerifProcessValidated(b, false)
					}
					if err != nil {
						key := "forged-block-rejected"
						for _, t := range b.Transactions {
							if len(t.Params) > 0 && t.Params[0] == 9 {
								key = "forged-block-rejected:validator-change"
							}
						}
						r.Violation(key, fmt.Sprintf("the block the generator produced is rejected by the same node: %v (pool %v, %d blocks before, certs %v)", err, desc, prefix, withCerts), c)
					}
					if len(w.n.App.Faults) > 0 {
						r.Violation("app-misuse", w.n.App.Faults[0], c)
					}
					w.close()
				}
			}
		}
	}
}

// ---- (c) histories -----------------------------------------------------------------------------

const (
	opForge = iota
	opOther
	opDelete
	opRestart
	opForgeLost // the real forge step; the block handed on is never applied (AddInternal drops it when the process queue is full, or it is still queued at the next tick)
	numOps
)

var opName = []string{"forge", "other-validator-block", "delete-tip", "restart-generator", "forge-block-not-applied"}

func names(h []int) []string {
	o := []string{}
	for _, x := range h {
		o = append(o, opName[x])
	}
	return o
}

type hist struct {
	signed  []ref.CHeader
	largest uint32
	moved   []bool // moved[i]: a block was deleted (a chain switch in the model) after header i was signed
}

var historyOnHand func(b *blockchain.Block)

func runHistory(r *vlib.Run, ops []int, gfs vfs.FS, crash *crashfs.Session) (string, string) {
	cfg := node.DefaultConfig(2)
	cfg.MaxPayload = 15 * 1024
	w := newWorld(cfg, gfs)
	w.onHand = historyOnHand
	w.cons.onHand = historyOnHand
	defer w.close()
	addr := node.KeysOf(0).Address
	h := &hist{}
	for i, op := range ops {
		switch op {
		case opForge, opForgeLost:
			var b *blockchain.Block
			mhpNow, _, _ := w.n.BFTHeights()
			would := ref.CHeader{Gen: "g", Height: w.n.Tip().Header.Height + 1, MHG: h.largest, MHP: mhpNow}
			if p := vlib.Catch(func() { b = w.forge() }); p != "" {
				return "forge-panics", p
			}
			if crash != nil && crash.Dead() {
				return "", "" // the process died inside this forge: the caller restarts
			}
			if b == nil {
				// declining to sign is right exactly when the header would contradict the last one handed on
				if len(h.signed) > 0 && ref.ContradictingOrderFree(h.signed[len(h.signed)-1], would) {
					r.Add("forge_declined_contradicting_header", 1)
					continue
				}
				info, _ := w.gen.VerifGeneratorInfo(addr)
				last := ref.CHeader{}
				if len(h.signed) > 0 {
					last = h.signed[len(h.signed)-1]
				}
				return "forge-produces-nothing", fmt.Sprintf("step %d: the header would be h%d mhg%d mhp%d, the last one handed on was h%d mhg%d mhp%d, the generator DB holds %+v", i, would.Height, would.MHG, would.MHP, last.Height, last.MHG, last.MHP, info)
			}
			nh := ref.CHeader{Gen: "g", Height: b.Header.Height, MHG: b.Header.MaxHeightGenerated, MHP: b.Header.MaxHeightPrevoted}
			if b.Header.MaxHeightGenerated != h.largest {
				return "mhg-not-largest-generated", fmt.Sprintf("forged header at height %d reports maxHeightGenerated %d but the largest height this generator ever generated is %d", b.Header.Height, b.Header.MaxHeightGenerated, h.largest)
			}
			for _, old := range h.signed {
				// contradiction oracle only when the move is one fork choice allows (new tip better than the tip of the old header's chain is not known here: use the LIP predicate directly)
				if ref.ContradictingOrderFree(old, nh) && nh.MHP > old.MHP {
					return "generator-contradicts-itself", fmt.Sprintf("header (h%d mhg%d mhp%d) contradicts its earlier header (h%d mhg%d mhp%d) although it moved to a chain with larger maxHeightPrevoted", nh.Height, nh.MHG, nh.MHP, old.Height, old.MHG, old.MHP)
				}
			}
			for oi, old := range h.signed {
				// no block was deleted since the old header was signed (the chain only grew, or stood still because the block
				// handed on was not applied): nothing excuses a contradiction
				if !h.moved[oi] && ref.ContradictingOrderFree(old, nh) {
					return "generator-contradicts-itself-without-chain-switch", fmt.Sprintf("header (h%d mhg%d mhp%d) contradicts its earlier header (h%d mhg%d mhp%d) and no block was deleted in between", nh.Height, nh.MHG, nh.MHP, old.Height, old.MHG, old.MHP)
				}
			}
			h.signed = append(h.signed, nh)
			h.moved = append(h.moved, false)
			if b.Header.Height > h.largest {
				h.largest = b.Header.Height
			}
			info, ok := w.gen.VerifGeneratorInfo(addr)
			if !ok || info.Height != b.Header.Height || info.MaxHeightGenerated != b.Header.MaxHeightGenerated || info.MaxHeightPrevoted != b.Header.MaxHeightPrevoted {
				return "persisted-info-not-last-header", fmt.Sprintf("generator DB holds %+v after handing on header h%d mhg%d mhp%d", info, b.Header.Height, b.Header.MaxHeightGenerated, b.Header.MaxHeightPrevoted)
			}
			if op == opForgeLost {
				continue
			}
			err := b.Validate()
			if err == nil {
				err = w.n.Exec.VerifProcessValidated(b, false)
			}
			if err != nil {
				return "forged-block-rejected", err.Error()
			}
		case opOther:
			s := w.nextSlotOf(1)
			if s < 0 {
				return "", "skip"
			}
			tipSlot := w.n.Slot.GetSlotNumber(w.n.Tip().Header.Timestamp)
			if _, err := w.n.Apply(node.Shape{SkipSlots: s - tipSlot - 1}); err != nil {
				return "", "skip"
			}
		case opDelete:
			if w.n.Tip().Header.Height == 0 {
				return "", "skip"
			}
			if err := w.n.Exec.VerifDeleteBlock(w.n.Tip(), false); err != nil {
				return "", "skip"
			}
			for oi := range h.moved {
				h.moved[oi] = true
			}
		case opRestart:
			if err := w.startGenerator(); err != nil {
				return "generator-restart-fails", err.Error()
			}
		}
	}
	return "", ""
}

func partC(r *vlib.Run) {
	depth := 6
	if r.Thorough() {
		depth = 8
	}
	seqs := [][]int{}
	var gen func(p []int)
	gen = func(p []int) {
		if len(p) > 0 {
			seqs = append(seqs, append([]int{}, p...))
		}
		if len(p) == depth {
			return
		}
		for o := 0; o < numOps; o++ {
			if len(p) > 0 && o == opRestart && p[len(p)-1] == opRestart {
				continue
			}
			gen(append(p, o))
		}
	}
	gen(nil)
	seen := map[string]bool{}
	r.RunSharded(len(seqs), func(i int) {
		if r.Expired() {
			r.Cap("deadline in part c")
			return
		}
		ops := seqs[i]
		// only complete sequences are run (prefixes are other items); a sequence that needs a skipped op is dropped
		key, what := runHistory(r, ops, nil, nil)
		r.Add("histories", 1)
		r.Add("transitions", int64(len(ops)))
		if key != "" && !seen[key] {
			seen[key] = true
			r.Violation(key, fmt.Sprintf("%s after %v", what, names(ops)), caseT{Part: "c", Ops: names(ops)})
		}
		if what == "skip" {
			r.Add("histories_with_inapplicable_op", 1)
		}
	})
}

// ---- (d) crash points of the generator DB ------------------------------------------------------

func partD(r *vlib.Run) {
	ops := []int{opForge, opOther, opForge}
	// reference run: generator-DB mutation count at every hand-off and the header handed on
	w0 := crashfs.NewWorld()
	s0 := w0.NewSession(0, false)
	type hand struct {
		at     int
		height uint32
		mhg    uint32
	}
	hands := []hand{}
	historyOnHand = func(b *blockchain.Block) {
		hands = append(hands, hand{s0.Count(), b.Header.Height, b.Header.MaxHeightGenerated})
	}
	runHistory(r, ops, s0, nil)
	historyOnHand = nil
	N := s0.Count()
	r.Set("generator_db_mutations", N)
	if len(hands) != 2 {
		r.Violation("harness-part-d", fmt.Sprintf("reference run handed on %d blocks, expected 2", len(hands)), caseT{Part: "d"})
		return
	}
	addr := node.KeysOf(0).Address
	for k := 1; k <= N+1; k++ {
		for _, policy := range []string{"lost", "survived"} {
			r.Add("crash_cases", 1)
			cw := crashfs.NewWorld()
			sess := cw.NewSession(k, false)
			if key, what := runHistory(r, ops, sess, sess); key != "" {
				r.Violation("crash:"+key, what, caseT{Part: "d", K: k})
				continue
			}
			sess.Kill()
			if policy == "lost" {
				cw.LoseUnsynced()
			}
			// reopen the generator DB and read the persisted info
			var info *generator.GeneratorInfo
			var ok bool
			if p := vlib.Catch(func() {
				cfg := node.DefaultConfig(2)
				w := newWorld(cfg, cw.NewSession(0, false))
				info, ok = w.gen.VerifGeneratorInfo(addr)
				w.close()
			}); p != "" {
				r.Violation("crash-recovery:generator-db-unreadable", fmt.Sprintf("after a crash before generator-DB mutation %d (%s): %s", k, policy, p), caseT{Part: "d", K: k})
				continue
			}
			// hand-offs that had happened before the crash
			done := 0
			for _, h := range hands {
				if h.at < k {
					done++
				}
			}
			c := caseT{Part: "d", K: k, Ops: []string{policy}}
			switch {
			case done == 0:
				if ok && info.Height != hands[0].height {
					r.Violation("crash:info-of-unknown-header", fmt.Sprintf("recovered info %+v matches no header", info), c)
				}
			default:
				last := hands[done-1]
				okSet := ok && (info.Height == last.height && info.MaxHeightGenerated == last.mhg)
				if done < len(hands) {
					nx := hands[done]
					okSet = okSet || (ok && info.Height == nx.height && info.MaxHeightGenerated == nx.mhg)
				}
				if !okSet {
					r.Violation("crash:handed-on-header-not-durable", fmt.Sprintf("header h%d mhg%d was handed on before the crash (mutation %d, %s) but the recovered generator DB holds %+v", last.height, last.mhg, k, policy, info), c)
				}
			}
		}
	}
}

func main() {
	r := vlib.Start("C15", "model_checking", 4*time.Minute, 20*time.Minute)
	r.Assume("the generator's clock is a seam (time.Now -> vclock.Now in generator.go through the build overlay); the node's own future-slot check uses real time, pinned into slot 1000 of the fixture")
	r.Assume("the contradiction oracle between forged headers is asserted when the later header carries a strictly larger maxHeightPrevoted (a move fork choice allows); the maxHeightGenerated rule is asserted always")
	if (r.Only == "" || r.Only == "a") && !inWorker() {
		partA(r)
	}
	if (r.Only == "" || r.Only == "b") && !inWorker() {
		partB(r)
	}
	if r.Only == "" || r.Only == "c" {
		partC(r)
	}
	if (r.Only == "" || r.Only == "d") && !inWorker() {
		partD(r)
	}
	r.Set("states", r.Get("histories")+r.Get("selections")+r.Get("forge_attempts"))
	r.Add("transitions", r.Get("selections")+r.Get("forge_attempts"))
	r.Set("traces_validated_against_impl", r.Get("histories")+r.Get("blocks_forged"))
	r.Set("explanation", "(a) every pool over 2 senders x 2 nonces x fee/verify-outcome/size variants x 3 size limits through the real selectTransactionsByFee against the set of greedy-acceptable selections; (b) real forge on 6 chain prefixes x 6 pools x with/without certifiable commits, block fed to Validate+processValidated; (c) every operation sequence up to the depth over {forge in own slot, block by the other validator, delete tip, restart generator} replayed on a fresh real node+generator; (d) every mutation boundary of the generator DB during forge/other/forge x {unsynced lost, survived}")
	r.Finish()
}

func inWorker() bool { return os.Getenv("VERIF_WORKER") != "" }
