// C04: finalized blocks are irreversible and the finalized height never decreases.
// Breadth-first search over operation sequences on the real node (process() with valid blocks,
// competitors of the tip: double forging / tie break / discard, invalid blocks, delete requests for the
// tip and for finalized blocks, restarts); states deduplicated on the canonical DB dump; the monitor
// (finalized height monotone, IDs at heights <= finalized fixed forever, stored finalized height >=
// precommitted height, finalize events exactly on raises) runs after every step of every path.
package main

import (
	"fmt"
	"time"

	"github.com/LiskHQ/lisk-engine/pkg/blockchain"

	"verif/node"
	"verif/vlib"
)

const (
	opApply0         = iota // valid empty block through process()
	opApply2                // txs + events
	opApply4                // validator join
	opApply7                // aggregate commit
	opApplySkip             // valid block after a skipped slot
	opDouble                // competitor of the tip by the same generator (same slot): double forging
	opTie                   // competitor of the tip in the current slot, tip not received in its slot: tie break
	opTieInvalid            // tie-break competitor whose state root is wrong: must be rolled back to the original tip
	opLate                  // competitor of the tip in a later, past slot: neither tie break nor better: discarded
	opInvalid               // successor with a broken signature
	opDelete                // deleteBlock(tip, saveTemp=false)
	opDeleteTemp            // deleteBlock(tip, saveTemp=true)
	opDeleteFin             // deleteBlock(block at the finalized height): must be refused
	opDeleteBelowTip        // deleteBlock(tip) twice in a row down to the finalized height boundary
	opRestart
	numOps
)

var opNames = []string{"apply-empty", "apply-txs", "apply-join", "apply-agg", "apply-skip", "double-forge", "tie-break", "tie-break-invalid", "late-competitor", "invalid-block", "delete", "delete-temp", "delete-finalized", "delete-to-finality", "restart"}

type world struct {
	n       *node.Node
	mon     *node.Monitor
	bad     []string
	changed bool // did the last operation change the tip?
}

func check(w *world, what string) {
	for _, b := range w.mon.Check(w.n, w.n.DrainEvents()) {
		w.bad = append(w.bad, what+": "+b)
	}
	if len(w.n.App.Faults) > 0 {
		w.bad = append(w.bad, what+": application protocol misuse: "+w.n.App.Faults[0])
		w.n.App.Faults = nil
	}
}

// competitor forges a sibling of the current tip on an auxiliary copy of the node.
func competitor(cfg node.Config, hist []int, skip int, salt byte, sameSlot bool) *blockchain.Block {
	aux := build(cfg, hist)
	if aux == nil {
		return nil
	}
	defer aux.n.Close()
	tip := aux.n.Tip()
	if tip.Header.Height == cfg.GenesisHeight {
		return nil
	}
	parentSlot := 0
	if err := aux.n.Exec.VerifDeleteBlock(tip, false); err != nil {
		return nil
	}
	parentSlot = aux.n.Slot.GetSlotNumber(aux.n.Tip().Header.Timestamp)
	tipSlot := aux.n.Slot.GetSlotNumber(tip.Header.Timestamp)
	sk := skip
	if sameSlot {
		sk = tipSlot - parentSlot - 1
	} else if skip < 0 {
		sk = cfg.CurrentSlot - parentSlot - 1
	} else {
		sk = tipSlot - parentSlot - 1 + skip
	}
	sh := node.MenuShape(0, tip.Header.Height, salt)
	sh.SkipSlots = sk
	b, err := aux.n.Forge(sh)
	if err != nil {
		return nil
	}
	return b
}

func apply(w *world, cfg node.Config, hist []int, op int) bool {
	n := w.n
	if n.Tip() == nil {
		return false // node already broken (reported by the monitor)
	}
	proc := func(b *blockchain.Block) {
		_ = n.Exec.VerifProcess(b, "peer-1")
	}
	switch op {
	case opApply0, opApply2, opApply4, opApply7, opApplySkip:
		k := map[int]int{opApply0: 0, opApply2: 2, opApply4: 4, opApply7: 7, opApplySkip: 6}[op]
		b, err := n.ForgeMenu(k, 0)
		if err != nil {
			return false
		}
		proc(b)
	case opDouble:
		b := competitor(cfg, hist, 0, 3, true)
		if b == nil {
			return false
		}
		proc(b)
	case opTie, opTieInvalid:
		b := competitor(cfg, hist, -1, 4, false)
		if b == nil {
			return false
		}
		if op == opTieInvalid {
			b.Header.StateRoot = make([]byte, 32)
			n.Reseal(b, false)
		}
		proc(b)
	case opLate:
		b := competitor(cfg, hist, 2, 5, false)
		if b == nil {
			return false
		}
		proc(b)
	case opInvalid:
		b, err := n.ForgeMenu(0, 9)
		if err != nil {
			return false
		}
		b.Header.Signature[3] ^= 1
		b.Header.Init()
		proc(b)
	case opDelete, opDeleteTemp:
		if n.Tip().Header.Height == cfg.GenesisHeight {
			return false
		}
		_ = n.Exec.VerifDeleteBlock(n.Tip(), op == opDeleteTemp)
	case opDeleteFin:
		fin := n.Finalized()
		b, err := n.Chain.DataAccess().GetBlockByHeight(fin)
		if err != nil {
			return false
		}
		if err := n.Exec.VerifDeleteBlock(b, false); err == nil && b.Header.Height <= fin {
			w.bad = append(w.bad, fmt.Sprintf("delete-finalized: deleteBlock accepted a block at height %d <= finalized %d", b.Header.Height, fin))
		}
	case opDeleteBelowTip:
		for i := 0; i < 4 && n.Tip() != nil && n.Tip().Header.Height > cfg.GenesisHeight; i++ {
			tip := n.Tip()
			fin := n.Finalized()
			err := n.Exec.VerifDeleteBlock(tip, false)
			if tip.Header.Height <= fin && err == nil {
				w.bad = append(w.bad, fmt.Sprintf("delete-to-finality: tip at height %d <= finalized %d was deleted", tip.Header.Height, fin))
			}
			if err != nil {
				break
			}
			check(w, "delete-to-finality step")
		}
	case opRestart:
		n2, err := n.Restart()
		if err != nil {
			w.bad = append(w.bad, "restart failed: "+err.Error())
			return true
		}
		w.n = n2
	}
	return true
}

func build(cfg node.Config, hist []int) *world {
	n, err := node.New(cfg)
	if err != nil {
		panic(err)
	}
	w := &world{n: n, mon: node.NewMonitor()}
	check(w, "genesis")
	for i, op := range hist {
		before := ""
		if w.n.Tip() != nil {
			before = string(w.n.Tip().Header.ID)
		}
		defer func() {}()
		ok := apply(w, cfg, hist[:i], op)
		w.changed = w.n.Tip() == nil || before != string(w.n.Tip().Header.ID)
		if !ok {
			n.Close()
			return nil
		}
		check(w, opNames[op])
	}
	return w
}

func key(w *world) string {
	if w.n.Tip() == nil {
		return node.DumpHash(w.n.CanonicalDump()) + ":no-cached-tip"
	}
	return node.DumpHash(w.n.CanonicalDump()) + ":" + fmt.Sprintf("%x", w.n.Tip().Header.ID[:6])
}

type caseT struct {
	Cfg  string   `json:"cfg"`
	Hist []int    `json:"ops"`
	Ops  []string `json:"opNames"`
}

func names(h []int) []string {
	o := []string{}
	for _, x := range h {
		o = append(o, opNames[x])
	}
	return o
}

func cfgFor(name string) node.Config {
	cfg := node.MenuConfig()
	if name == "n1" {
		c := node.DefaultConfig(1)
		c.BatchSize = 3
		c.ValChangeMenu = cfg.ValChangeMenu
		cfg = c
	}
	cfg.MaxBlockCache = 3
	return cfg
}

func main() {
	r := vlib.Start("C04", "model_checking", 4*time.Minute, 25*time.Minute)
	r.Assume("sync-driven reorganisations need a second node over a transport and are explored in C19; here every step that process() itself executes (valid block, identical, double forging, tie break incl. failed tie break, discard), delete requests and restarts")
	r.Assume("real time falls into slot CurrentSlot of the fixture (block time 10000 s), which makes 'received within its slot' deterministic")
	depth := 5
	if r.Thorough() {
		depth = 7
	}
	if r.ReplayPath != "" {
		var c caseT
		if err := r.ReadReplay(&c); err != nil {
			fmt.Println(err)
			r.Finish()
		}
		w := build(cfgFor(c.Cfg), c.Hist)
		if w != nil {
			for _, b := range w.bad {
				r.Violation("replay", b, c)
				fmt.Println("replayed:", b)
			}
		}
		r.Finish()
	}
	for _, cname := range []string{"n2", "n1"} {
		cfg := cfgFor(cname)
		seen := map[string]bool{}
		frontier := [][]int{{}}
		w0 := build(cfg, nil)
		seen[key(w0)] = true
		w0.n.Close()
		r.Add("states", 1)
		for d := 0; d < depth && len(frontier) > 0; d++ {
			level := frontier
			frontier = nil
			items := make([]string, len(level))
			for i, h := range level {
				items[i] = cname + "|" + encodePath(h)
			}
			r.Cov["succ"] = map[string]interface{}{}
			r.RunItems(items, expand(r))
			m, _ := r.Cov["succ"].(map[string]interface{})
			keys := make([]string, 0, len(m))
			for k := range m {
				keys = append(keys, k)
			}
			sortStrings(keys)
			for _, k := range keys {
				if seen[k] {
					continue
				}
				seen[k] = true
				r.Add("states", 1)
				frontier = append(frontier, decodePath(m[k]))
			}
			delete(r.Cov, "succ")
			r.AddMap("frontier_sizes", fmt.Sprintf("%s-depth%d", cname, d+1), int64(len(frontier)))
			if len(frontier) > 0 {
				r.Sample(map[string]interface{}{"cfg": cname, "depth": d + 1, "ops": names(frontier[len(frontier)/2])})
			}
		}
	}
	r.Set("traces_validated_against_impl", r.Get("transitions"))
	r.Set("max_depth", depth)
	r.Set("explanation", "BFS over operation sequences; a successor is built by replaying its whole history on a fresh real node with the monitor attached (transitions = histories replayed); states = distinct canonical DB dumps + cached tip")
	r.Finish()
}

// expand computes all successors of one frontier element (item = "cfg|encoded path").
func expand(r *vlib.Run) func(item string) {
	return func(item string) {
		if r.Expired() {
			r.Cap("deadline during expansion")
			return
		}
		var cname, enc string
		for i := range item {
			if item[i] == '|' {
				cname, enc = item[:i], item[i+1:]
			}
		}
		cfg := cfgFor(cname)
		hist := decodePath(enc)
		if _, ok := r.Cov["succ"].(map[string]interface{}); !ok {
			r.Cov["succ"] = map[string]interface{}{}
		}
		for op := 0; op < numOps; op++ {
			nh := append(append([]int{}, hist...), op)
			w := build(cfg, nh)
			if w == nil {
				r.Add("ops_not_applicable", 1)
				continue
			}
			r.Add("transitions", 1)
			r.AddMap("ops_executed", opNames[op], 1)
			if w.changed {
				r.AddMap("ops_that_changed_the_tip", opNames[op], 1)
			}
			if len(w.bad) > 0 {
				r.Violation(cname+":"+shortKey(w.bad[0]), fmt.Sprintf("%s after ops %v", w.bad[0], names(nh)), caseT{cname, nh, names(nh)})
			}
			if w.n.Finalized() > cfg.GenesisHeight {
				r.Add("transitions_with_finalized_blocks", 1)
			}
			k := key(w)
			w.n.Close()
			m := r.Cov["succ"].(map[string]interface{})
			if _, ok := m[k]; !ok {
				m[k] = encodePath(nh)
			}
		}
	}
}

func shortKey(s string) string {
	for i, c := range s {
		if c == ' ' && i > 12 {
			return s[:i]
		}
	}
	return s
}

func encodePath(p []int) string {
	b := make([]byte, len(p))
	for i, x := range p {
		b[i] = byte('a' + x)
	}
	return string(b)
}

func decodePath(v interface{}) []int {
	s, _ := v.(string)
	p := make([]int, len(s))
	for i := range s {
		p[i] = int(s[i] - 'a')
	}
	return p
}

func sortStrings(a []string) {
	for i := 1; i < len(a); i++ {
		for j := i; j > 0 && a[j] < a[j-1]; j-- {
			a[j], a[j-1] = a[j-1], a[j]
		}
	}
}
