// C08: codec — lossless round trip, deterministic encoding, canonical strict decoding, stable IDs, Lisk32.
// Bounded-exhaustive: reflection-driven value enumeration for every generated-codec type (registry built
// at check time from *_codec.go), every single-byte mutation / truncation / insertion of seed encodings and
// every short byte string through the network-facing strict decoders, every position of Lisk32 texts.
package main

import (
	"bytes"
	"crypto/sha256"
	"fmt"
	"reflect"
	"sort"
	"strings"
	"time"
	"unsafe"

	"golang.org/x/text/unicode/norm"

	"github.com/LiskHQ/lisk-engine/pkg/blockchain"
	"github.com/LiskHQ/lisk-engine/pkg/codec"
	"github.com/LiskHQ/lisk-engine/pkg/consensus"
	"github.com/LiskHQ/lisk-engine/pkg/db"
	"github.com/LiskHQ/lisk-engine/pkg/verifrt/codectypes"

	"verif/vlib"
)

type enc interface {
	Encode() []byte
	Decode([]byte) error
	DecodeStrict([]byte) error
}

// ---- value enumeration ---------------------------------------------------------------------------

var (
	u32s = []uint64{0, 1, 127, 128, 16383, 16384, 1<<32 - 1}
	u64s = []uint64{0, 1, 127, 128, 16383, 16384, 1<<32 - 1, 1 << 63, 1<<64 - 1}
	i64s = []int64{0, 1, -1, 63, 64, -64, -65, 1<<31 - 1, -1 << 31}
	strs = []string{"", "a", "é", "é", strings.Repeat("x", 200), "zü世", "q\u0300", "x\u0327\u0301z", "\u1100\u1161\u11a8", "\u2126"}
	byts = [][]byte{nil, {0}, {0xff}, bytes.Repeat([]byte{0xab}, 32), bytes.Repeat([]byte{7}, 300)}
)

func settable(v reflect.Value) reflect.Value {
	if v.CanSet() {
		return v
	}
	return reflect.NewAt(v.Type(), unsafe.Pointer(v.UnsafeAddr())).Elem()
}

// domainSize returns how many values field kind t has in the enumeration domain.
func domainSize(t reflect.Type) int {
	switch t.Kind() {
	case reflect.Uint32:
		return len(u32s)
	case reflect.Uint64, reflect.Uint, reflect.Uint8, reflect.Uint16:
		return len(u64s)
	case reflect.Int32, reflect.Int64, reflect.Int:
		return len(i64s)
	case reflect.Bool:
		return 2
	case reflect.String:
		return len(strs)
	case reflect.Slice:
		if t.Elem().Kind() == reflect.Uint8 {
			return len(byts)
		}
		return 3
	case reflect.Ptr, reflect.Struct:
		return 3
	}
	return 1
}

// fill sets v (settable) to the k-th value of its domain.
func fill(v reflect.Value, k int, depth int) {
	t := v.Type()
	switch t.Kind() {
	case reflect.Uint32:
		v.SetUint(u32s[k%len(u32s)])
	case reflect.Uint64, reflect.Uint:
		v.SetUint(u64s[k%len(u64s)])
	case reflect.Uint8, reflect.Uint16:
		v.SetUint(u64s[k%3])
	case reflect.Int32:
		x := i64s[k%len(i64s)]
		v.SetInt(x)
	case reflect.Int64, reflect.Int:
		v.SetInt(i64s[k%len(i64s)])
	case reflect.Bool:
		v.SetBool(k%2 == 1)
	case reflect.String:
		v.SetString(strs[k%len(strs)])
	case reflect.Slice:
		if t.Elem().Kind() == reflect.Uint8 {
			b := byts[k%len(byts)]
			if b == nil {
				v.Set(reflect.Zero(t))
			} else {
				nv := reflect.MakeSlice(t, len(b), len(b))
				reflect.Copy(nv, reflect.ValueOf(b))
				v.Set(nv)
			}
			return
		}
		n := k % 3 // 0, 1 or 2 elements
		nv := reflect.MakeSlice(t, n, n)
		for i := 0; i < n; i++ {
			fill(nv.Index(i), k+i+1, depth+1)
		}
		v.Set(nv)
	case reflect.Ptr:
		if depth > 3 {
			v.Set(reflect.New(t.Elem()))
			return
		}
		nv := reflect.New(t.Elem())
		fill(nv.Elem(), k, depth+1)
		v.Set(nv)
	case reflect.Struct:
		for i := 0; i < t.NumField(); i++ {
			if _, ok := t.Field(i).Tag.Lookup("fieldNumber"); !ok {
				continue
			}
			fill(settable(v.Field(i)), k+i, depth+1)
		}
	}
}

// norm builds a comparable representation: NFC strings, nil == empty, only codec fields.
func normVal(v reflect.Value) interface{} {
	switch v.Kind() {
	case reflect.Ptr:
		if v.IsNil() {
			return normVal(reflect.New(v.Type().Elem()).Elem())
		}
		return normVal(v.Elem())
	case reflect.Struct:
		out := []interface{}{}
		for i := 0; i < v.NumField(); i++ {
			if _, ok := v.Type().Field(i).Tag.Lookup("fieldNumber"); !ok {
				continue
			}
			out = append(out, normVal(v.Field(i)))
		}
		return out
	case reflect.String:
		return norm.NFC.String(v.String())
	case reflect.Slice:
		if v.Type().Elem().Kind() == reflect.Uint8 {
			b := make([]byte, v.Len())
			for i := range b {
				b[i] = byte(v.Index(i).Uint())
			}
			return string(b)
		}
		out := []interface{}{}
		for i := 0; i < v.Len(); i++ {
			out = append(out, normVal(v.Index(i)))
		}
		return out
	case reflect.Uint, reflect.Uint8, reflect.Uint16, reflect.Uint32, reflect.Uint64:
		return v.Uint()
	case reflect.Int, reflect.Int32, reflect.Int64:
		return v.Int()
	case reflect.Bool:
		return v.Bool()
	}
	return nil
}

func codecFields(t reflect.Type) []int {
	idx := []int{}
	for i := 0; i < t.NumField(); i++ {
		if _, ok := t.Field(i).Tag.Lookup("fieldNumber"); ok {
			idx = append(idx, i)
		}
	}
	return idx
}

// values enumerates instances of the type behind ctor: three uniform bases, every single-field deviation
// from the middle base, and every pair of deviations for types with at most 5 codec fields.
func values(ctor func() interface{}, pairs bool, visit func(desc string, v interface{})) {
	proto := reflect.ValueOf(ctor()).Elem()
	t := proto.Type()
	fields := codecFields(t)
	mk := func(assign map[int]int, base int) interface{} {
		p := ctor()
		v := reflect.ValueOf(p).Elem()
		for _, fi := range fields {
			k := base + fi
			if a, ok := assign[fi]; ok {
				k = a
			}
			fill(settable(v.Field(fi)), k, 0)
		}
		return p
	}
	for _, base := range []int{0, 1, 4} {
		visit(fmt.Sprintf("base%d", base), mk(nil, base))
	}
	for _, fi := range fields {
		n := domainSize(t.Field(fi).Type)
		for k := 0; k < n; k++ {
			visit(fmt.Sprintf("%s=%d", t.Field(fi).Name, k), mk(map[int]int{fi: k}, 1))
		}
	}
	if pairs && len(fields) <= 5 {
		for a := 0; a < len(fields); a++ {
			for b := a + 1; b < len(fields); b++ {
				na, nb := domainSize(t.Field(fields[a]).Type), domainSize(t.Field(fields[b]).Type)
				for ka := 0; ka < na; ka++ {
					for kb := 0; kb < nb; kb++ {
						visit(fmt.Sprintf("%s=%d,%s=%d", t.Field(fields[a]).Name, ka, t.Field(fields[b]).Name, kb), mk(map[int]int{fields[a]: ka, fields[b]: kb}, 1))
					}
				}
			}
		}
	}
}

type caseT struct {
	Type  string `json:"type"`
	Value string `json:"value,omitempty"`
	Bytes string `json:"bytes_hex,omitempty"`
	What  string `json:"what"`
}

func main() {
	r := vlib.Start("C08", "exploration", 4*time.Minute, 25*time.Minute)
	r.Assume("values are enumerated from per-kind boundary domains (varint boundaries, empty/1/32/300-byte strings, NFC and NFD text, 0-2 element lists, nested structs non-nil); codec types in package main (cmd/) cannot be imported and are not covered")
	types := codectypes.All()
	names := []string{}
	for n := range types {
		names = append(names, n)
	}
	sort.Strings(names)
	var evals, nontrivial int64
	seen := map[string]bool{}
	viol := func(key, what string, c caseT) {
		if !seen[key] {
			seen[key] = true
			r.Violation(key, what, c)
		} else {
			r.Add("further_violations", 1)
		}
	}
	// ---- (1) round trip / determinism / strict accepts own encodings, for every type ----
	for _, name := range names {
		ctor := types[name]
		if _, ok := ctor().(enc); !ok {
			continue
		}
		nvals := 0
		values(ctor, true, func(desc string, v interface{}) {
			nvals++
			evals++
			e := v.(enc)
			c := caseT{Type: name, Value: desc}
			var b []byte
			if p := vlib.Catch(func() { b = e.Encode() }); p != "" {
				viol("encode-panics:"+name, fmt.Sprintf("%s.Encode panics for value %s: %s", name, desc, p), c)
				return
			}
			if len(b) > 0 {
				nontrivial++
			}
			if b2 := e.Encode(); !bytes.Equal(b, b2) {
				viol("encode-nondeterministic:"+name, fmt.Sprintf("%s encodes value %s differently the second time", name, desc), c)
			}
			for _, strict := range []bool{false, true} {
				d := ctor().(enc)
				var err error
				if p := vlib.Catch(func() {
					if strict {
						err = d.DecodeStrict(b)
					} else {
						err = d.Decode(b)
					}
				}); p != "" {
					viol(fmt.Sprintf("decode-own-encoding-panics:%s", name), fmt.Sprintf("%s decode(strict=%v) panics on its own encoding of %s: %s", name, strict, desc, p), c)
					continue
				}
				if err != nil {
					viol(fmt.Sprintf("decode-own-encoding-fails:%s:strict%v", name, strict), fmt.Sprintf("%s decode(strict=%v) rejects its own encoding of value %s: %v", name, strict, desc, err), c)
					continue
				}
				if !reflect.DeepEqual(normVal(reflect.ValueOf(d)), normVal(reflect.ValueOf(v))) {
					viol(fmt.Sprintf("round-trip-differs:%s", name), fmt.Sprintf("%s: decode(encode(v)) != v for value %s (strict=%v)", name, desc, strict), c)
					continue
				}
				if b3 := d.Encode(); !bytes.Equal(b3, b) {
					viol(fmt.Sprintf("re-encode-differs:%s", name), fmt.Sprintf("%s: encode(decode(encode(v))) != encode(v) for value %s", name, desc), c)
				}
			}
		})
		r.AddMap("values_per_type", name, int64(nvals))
	}
	r.Add("types_covered", int64(len(names)))

	// ---- (2) canonical strict decoding of the network-facing types ----
	txSeed := func(k int) *blockchain.Transaction {
		p := types["blockchain.Transaction"]().(*blockchain.Transaction)
		fill(reflect.ValueOf(p).Elem(), k, 0)
		return p
	}
	type strictT struct {
		name   string
		seeds  [][]byte
		decode func(b []byte) (reenc []byte, id []byte, err error)
		stable func(b []byte) string // for accepted bytes: "" or why the ID is not stable under re-encoding
	}
	headerSeed := func() []byte {
		h := &blockchain.BlockHeader{Version: 2, Timestamp: 100, Height: 3, PreviousBlockID: bytes.Repeat([]byte{1}, 32), GeneratorAddress: bytes.Repeat([]byte{2}, 20),
			TransactionRoot: bytes.Repeat([]byte{3}, 32), AssetRoot: bytes.Repeat([]byte{4}, 32), EventRoot: bytes.Repeat([]byte{5}, 32), StateRoot: bytes.Repeat([]byte{6}, 32),
			MaxHeightPrevoted: 1, MaxHeightGenerated: 2, ImpliesMaxPrevotes: true, ValidatorsHash: bytes.Repeat([]byte{7}, 32),
			AggregateCommit: &blockchain.AggregateCommit{Height: 1, AggregationBits: []byte{1}, CertificateSignature: bytes.Repeat([]byte{8}, 96)}, Signature: bytes.Repeat([]byte{9}, 64)}
		return h.Encode()
	}
	blockSeed := func() []byte {
		h := &blockchain.BlockHeader{Version: 2, Timestamp: 100, Height: 3, PreviousBlockID: bytes.Repeat([]byte{1}, 32), GeneratorAddress: bytes.Repeat([]byte{2}, 20),
			TransactionRoot: bytes.Repeat([]byte{3}, 32), AssetRoot: bytes.Repeat([]byte{4}, 32), EventRoot: bytes.Repeat([]byte{5}, 32), StateRoot: bytes.Repeat([]byte{6}, 32),
			MaxHeightPrevoted: 1, MaxHeightGenerated: 2, ImpliesMaxPrevotes: true, ValidatorsHash: bytes.Repeat([]byte{7}, 32),
			AggregateCommit: &blockchain.AggregateCommit{Height: 1, AggregationBits: []byte{1}, CertificateSignature: bytes.Repeat([]byte{8}, 96)}, Signature: bytes.Repeat([]byte{9}, 64)}
		h.Init()
		b := &blockchain.Block{Header: h, Transactions: []*blockchain.Transaction{txSeed(1)}, Assets: []*blockchain.BlockAsset{{Module: "mod", Data: []byte{1, 2}}}}
		return b.Encode()
	}
	strictTypes := []strictT{
		{"Transaction", [][]byte{txSeed(1).Encode(), txSeed(3).Encode(), txSeed(0).Encode()}, func(b []byte) ([]byte, []byte, error) {
			tx, err := blockchain.NewTransaction(b)
			if err != nil {
				return nil, nil, err
			}
			return tx.Encode(), tx.ID, nil
		}, nil},
		{"Block", [][]byte{blockSeed()}, func(b []byte) ([]byte, []byte, error) {
			bl, err := blockchain.NewBlock(b)
			if err != nil {
				return nil, nil, err
			}
			return bl.Encode(), nil, nil
		}, func(b []byte) string {
			bl, err := blockchain.NewBlock(b)
			if err != nil {
				return ""
			}
			want := sha256.Sum256(bl.Header.Encode())
			if !bytes.Equal(bl.Header.ID, want[:]) {
				return "the block ID is not the hash of its (re-encoded) header"
			}
			if re, err := blockchain.NewBlock(bl.Encode()); err != nil || !bytes.Equal(re.Header.ID, bl.Header.ID) {
				return "the block ID changes when the block is encoded and decoded again"
			}
			return ""
		}},
		{"BlockHeader", [][]byte{headerSeed()}, func(b []byte) ([]byte, []byte, error) {
			h, err := blockchain.NewBlockHeader(b)
			if err != nil {
				return nil, nil, err
			}
			return h.Encode(), nil, nil
		}, func(b []byte) string {
			h, err := blockchain.NewBlockHeader(b)
			if err != nil {
				return ""
			}
			want := sha256.Sum256(h.Encode())
			if !bytes.Equal(h.ID, want[:]) {
				return "the header ID is not the hash of its (re-encoded) bytes"
			}
			if re, err := blockchain.NewBlockHeader(h.Encode()); err != nil || !bytes.Equal(re.ID, h.ID) {
				return "the header ID changes when the header is encoded and decoded again"
			}
			return ""
		}},
		{"BlockAsset", [][]byte{(&blockchain.BlockAsset{Module: "token", Data: []byte{1, 2, 3}}).Encode()}, func(b []byte) ([]byte, []byte, error) {
			a, err := blockchain.NewBlockAsset(b)
			if err != nil {
				return nil, nil, err
			}
			return a.Encode(), nil, nil
		}, nil},
		{"EventPostSingleCommits", func() [][]byte {
			p := types["consensus.EventPostSingleCommits"]()
			fill(reflect.ValueOf(p).Elem(), 2, 0)
			return [][]byte{p.(enc).Encode()}
		}(), func(b []byte) ([]byte, []byte, error) {
			m := &consensus.EventPostSingleCommits{}
			if err := m.DecodeStrict(b); err != nil {
				return nil, nil, err
			}
			return m.Encode(), nil, nil
		}, nil},
	}
	maxLen := 2
	if r.Thorough() {
		maxLen = 3
	}
	for _, st := range strictTypes {
		check := func(in []byte, how string) {
			evals++
			var re, id []byte
			var err error
			if p := vlib.Catch(func() { re, id, err = st.decode(in) }); p != "" {
				r.Add("strict_decoder_panics", 1) // crash-freedom is C09's oracle
				return
			}
			if err != nil {
				return
			}
			r.AddMap("strict_inputs_accepted", st.name, 1)
			if !bytes.Equal(re, in) && st.name != "Transaction" {
				// the property states canonicity for transactions (their ID is the hash of the wire bytes); block IDs
				// are hashes of the re-encoded header and stay stable, nested messages are decoded leniently
				r.AddMap("non_canonical_encodings_accepted_informational", st.name, 1)
			} else if !bytes.Equal(re, in) {
				viol("non-canonical-accepted:"+st.name+":"+how, fmt.Sprintf("strict decoding of %s accepts %x (%s) although its canonical encoding is %x", st.name, in, how, re), caseT{Type: st.name, Bytes: fmt.Sprintf("%x", in), What: how})
			}
			if st.stable != nil {
				if why := st.stable(in); why != "" {
					viol("id-not-stable:"+st.name, fmt.Sprintf("%s decoded from %x (%s): %s", st.name, in, how, why), caseT{Type: st.name, Bytes: fmt.Sprintf("%x", in), What: how})
				}
			}
			if id != nil {
				h := sha256.Sum256(in)
				if !bytes.Equal(id, h[:]) {
					viol("id-not-hash-of-accepted-bytes:"+st.name, fmt.Sprintf("%s ID differs from SHA-256 of the accepted bytes %x", st.name, in), caseT{Type: st.name, Bytes: fmt.Sprintf("%x", in), What: how})
				}
			}
		}
		for _, seed := range st.seeds {
			check(seed, "seed")
			nontrivial++
			for i := range seed {
				for x := 0; x < 256; x++ {
					if byte(x) == seed[i] {
						continue
					}
					m := append([]byte{}, seed...)
					m[i] = byte(x)
					check(m, "byte-substituted")
				}
				check(append(append([]byte{}, seed[:i]...), seed[i+1:]...), "byte-deleted")
				for _, ins := range []byte{0x00, 0x80, 0x01, 0xff} {
					m := append(append(append([]byte{}, seed[:i]...), ins), seed[i:]...)
					check(m, "byte-inserted")
				}
				check(append(make([]byte, 0, i), seed[:i]...), "truncated") // exact capacity: a read past the end must not find the cut-off bytes
			}
			for _, tr := range [][]byte{{0}, {0x80, 0}, {0x08, 0}, {0x7a, 0}} {
				check(append(append([]byte{}, seed...), tr...), "trailing-bytes")
			}
			// every varint made overlong: a byte b < 0x80 followed by anything -> b|0x80, 0x00
			for i := range seed {
				if seed[i] < 0x80 {
					m := append(append(append([]byte{}, seed[:i]...), seed[i]|0x80, 0x00), seed[i+1:]...)
					check(m, "overlong-varint")
				}
			}
		}
		// all short byte strings
		var rec func(prefix []byte)
		rec = func(prefix []byte) {
			check(prefix, "short-string")
			if len(prefix) == maxLen {
				return
			}
			for x := 0; x < 256; x++ {
				rec(append(append([]byte{}, prefix...), byte(x)))
			}
		}
		rec(nil)
	}

	// ---- (3a) an ID always follows the content: modify an initialised transaction / header and initialise again ----
	for k := 0; k < 8; k++ {
		t := txSeed(k)
		t.Init()
		first := append([]byte{}, t.ID...)
		t.Nonce += 1000
		t.Fee += 7
		t.Init()
		evals++
		want := sha256.Sum256(t.Encode())
		if !bytes.Equal(t.ID, want[:]) {
			viol("tx-id-not-hash-of-encoding-after-reinit", fmt.Sprintf("transaction modified after Init and initialised again: ID %x is not the hash of its encoding (stale ID kept: %v)", t.ID[:4], bytes.Equal(t.ID, first)), caseT{Type: "Transaction"})
		}
		re, err := blockchain.NewTransaction(t.Encode())
		if err != nil || !bytes.Equal(re.ID, want[:]) {
			viol("tx-id-changes-on-re-encode", fmt.Sprintf("decoding the encoding of a re-initialised transaction gives another ID (%v)", err), caseT{Type: "Transaction"})
		}
		// a transaction arriving as JSON with an id member (postTransaction): the id must still be derived
		t2 := txSeed(k)
		t2.ID = bytes.Repeat([]byte{0xAB}, 32)
		t2.Init()
		evals++
		w2 := sha256.Sum256(t2.Encode())
		if !bytes.Equal(t2.ID, w2[:]) {
			viol("tx-id-not-hash-of-encoding-preset-id", "Init keeps a 32-byte ID that was already present instead of hashing the encoding", caseT{Type: "Transaction"})
		}
	}
	// ---- (3) IDs are stable under store/load and re-encoding ----
	{
		d, _ := db.NewInMemoryDB()
		g := blockchain.NewGenesisBlock(0, 1000, bytes.Repeat([]byte{0}, 32), blockchain.BlockAssets{})
		g.Header.Init()
		c := blockchain.NewChain(&blockchain.ChainConfig{ChainID: []byte{1, 2, 3, 4}, MaxBlockCache: 1, KeepEventsForHeights: -1, MaxTransactionsLength: 1 << 20})
		c.Init(g, d)
		_ = c.AddBlock(d.NewBatch(), g, nil, 0, false)
		prev := g
		for k := 0; k < 6; k++ {
			bl, err := blockchain.NewBlock(blockSeed())
			if err != nil {
				viol("seed-block-undecodable", err.Error(), caseT{Type: "Block"})
				break
			}
			bl.Header.Height = prev.Header.Height + 1
			bl.Header.PreviousBlockID = prev.Header.ID
			bl.Transactions = []*blockchain.Transaction{txSeed(k), txSeed(k + 7)}
			for _, t := range bl.Transactions {
				t.Init()
			}
			bl.Header.Init()
			evals++
			if err := c.AddBlock(d.NewBatch(), bl, nil, 0, false); err != nil {
				viol("addblock-fails", err.Error(), caseT{Type: "Block"})
				break
			}
			prev = bl
		}
		// everything but the newest block now comes from the database
		for h := uint32(1); h <= prev.Header.Height; h++ {
			got, err := c.DataAccess().GetBlockByHeight(h)
			evals++
			if err != nil {
				viol("stored-block-unreadable", err.Error(), caseT{Type: "Block"})
				continue
			}
			re, err := blockchain.NewBlock(got.Encode())
			if err != nil || !bytes.Equal(re.Header.ID, got.Header.ID) {
				viol("block-id-changes-on-re-encode", fmt.Sprintf("block at height %d: ID after re-encoding differs (%v)", h, err), caseT{Type: "Block"})
			}
			want := sha256.Sum256(got.Header.Encode())
			if !bytes.Equal(got.Header.ID, want[:]) {
				viol("block-id-not-hash-of-header", fmt.Sprintf("block at height %d loaded from storage has an ID that is not the hash of its header", h), caseT{Type: "Block"})
			}
			for _, t := range got.Transactions {
				w := sha256.Sum256(t.Encode())
				if !bytes.Equal(t.ID, w[:]) {
					viol("tx-id-changes-on-store-load", fmt.Sprintf("transaction in block %d has ID %x after loading, hash of encoding %x", h, []byte(t.ID), w[:]), caseT{Type: "Transaction"})
				}
				nontrivial++
			}
		}
		d.Close()
	}

	// ---- (4) Lisk32 ----
	{
		const alphabet = "zxvcpmbn3465o978uyrtkqew2adsjhfg"
		for base := 0; base < 8; base++ {
			addr := bytes.Repeat([]byte{byte(base * 37)}, 20)
			for pos := 0; pos < 20; pos++ {
				for x := 0; x < 256; x++ {
					a := append([]byte{}, addr...)
					a[pos] = byte(x)
					evals++
					txt, err := codec.BytesToLisk32(a)
					if err != nil {
						viol("lisk32-encode-fails", fmt.Sprintf("BytesToLisk32(%x): %v", a, err), caseT{Type: "Lisk32", Bytes: fmt.Sprintf("%x", a)})
						continue
					}
					back, err := codec.Lisk32ToBytes(txt)
					if err != nil || !bytes.Equal(back, a) {
						viol("lisk32-round-trip", fmt.Sprintf("Lisk32ToBytes(BytesToLisk32(%x)) = %x, %v", a, back, err), caseT{Type: "Lisk32", Bytes: fmt.Sprintf("%x", a)})
					}
				}
			}
			txt, _ := codec.BytesToLisk32(addr)
			// every single-byte substitution at every position (prefix included) and every length change by one: whatever
			// text is accepted must be the text of the bytes it converts to (text -> bytes -> text without loss)
			alts := []string{txt[1:], txt[:len(txt)-1], txt + "z", "l" + txt, txt[:3] + "z" + txt[3:]}
			for pos := 0; pos < len(txt); pos++ {
				for x := 0; x < 256; x++ {
					if byte(x) != txt[pos] {
						alts = append(alts, txt[:pos]+string([]byte{byte(x)})+txt[pos+1:])
					}
				}
			}
			for _, m := range alts {
				evals++
				nontrivial++
				b, err := codec.Lisk32ToBytes(m)
				if err != nil {
					continue
				}
				if back, err := codec.BytesToLisk32(b); err != nil || back != m {
					viol("lisk32-text-round-trip-lossy", fmt.Sprintf("Lisk32 text %q is accepted as %x, whose text is %q (%v)", m, b, back, err), caseT{Type: "Lisk32", Value: m})
				}
			}
			for pos := 3; pos < len(txt); pos++ {
				for _, ch := range alphabet {
					if byte(ch) == txt[pos] {
						continue
					}
					m := txt[:pos] + string(ch) + txt[pos+1:]
					evals++
					nontrivial++
					if b, err := codec.Lisk32ToBytes(m); err == nil {
						viol("lisk32-bad-checksum-accepted", fmt.Sprintf("Lisk32 text %q (one character of %q altered) accepted as %x", m, txt, b), caseT{Type: "Lisk32", Value: m})
					}
				}
			}
		}
	}
	r.Set("evaluations", evals)
	r.Set("distinct_nontrivial", nontrivial)
	r.Set("rule", fmt.Sprintf("(1) %d codec types x (3 uniform bases + every single-field value of the per-kind domains + every pair for types with <=5 fields): encode, decode lenient and strict, compare normalised, re-encode; (2) Transaction, Block, BlockAsset, EventPostSingleCommits: every single-byte substitution, deletion, insertion (4 values), truncation, trailing bytes and overlong varint of every seed, and every byte string of length <= %d through the strict constructors: accepted => re-encoding equals the input and the transaction ID is the SHA-256 of the input; (3) store/load/re-encode ID stability on a real DataAccess; (4) 8 addresses x 20 positions x 256 byte values round trip, every single-character substitution of the text rejected, every single-byte substitution at every position of the text (prefix included) and every length change by one: accepted => the text is the text of its bytes. non-trivial = non-empty encodings, seeds, stored transactions, altered texts", len(names), maxLen))
	r.Sample(caseT{Type: "blockchain.Transaction", Value: "Nonce=8 (2^64-1), others base", What: "round trip"})
	r.Sample(caseT{Type: "Transaction", Bytes: fmt.Sprintf("%x", txSeed(1).Encode()[:24]), What: "every single-byte mutation of this seed"})
	r.Finish()
}
