// C16: transaction execution is atomic; the state root is a function of the state.
// Real framework.ABIHandler + statemachine.Executer + a scripted module, driven through the public ABI
// with requests shaped exactly as the engine builds them. Every command script of <=3 steps x outcome x 2
// initial states; block histories with Commit / Revert / restart recovery.
package main

import (
	"bytes"
	"context"
	"encoding/json"
	"errors"
	"fmt"
	"os"
	"sort"
	"strings"
	"sync"
	"time"

	"github.com/LiskHQ/lisk-engine/pkg/blockchain"
	"github.com/LiskHQ/lisk-engine/pkg/codec"
	"github.com/LiskHQ/lisk-engine/pkg/crypto"
	"github.com/LiskHQ/lisk-engine/pkg/db"
	"github.com/LiskHQ/lisk-engine/pkg/framework"
	fconfig "github.com/LiskHQ/lisk-engine/pkg/framework/config"
	"github.com/LiskHQ/lisk-engine/pkg/labi"
	"github.com/LiskHQ/lisk-engine/pkg/statemachine"

	"verif/nolog"
	"verif/ref"
	"verif/vlib"
)

// ---- scripted module ---------------------------------------------------------------------------

var (
	storePrefix = []byte{0, 0, 0, 9}
	subA        = []byte{0, 1}
	subB        = []byte{0, 2}
	keysU       = [][]byte{[]byte("k0"), []byte("k1-a-32-byte-key-like-an-id-hash")} // one short key, one of 32 bytes (IDs and hashes are keys of that length)
	vals        = [][]byte{nil, []byte("value-1"), []byte("value-two")}
)

// step byte: 0xSKV? encode as: kind(0 write,1 event,2 unrevertible event), store(0/1), key(0/1), val(0 del,1,2)
type step struct {
	Kind, Store, Key, Val byte
}

func (s step) String() string {
	switch s.Kind {
	case 1:
		return "event"
	case 2:
		return "event!"
	}
	op := []string{"del", "set1", "set2"}[s.Val]
	return fmt.Sprintf("%s(%c.k%d)", op, 'A'+s.Store, s.Key)
}

type script struct {
	Steps []step
	Fail  bool
}

func (s script) encode() []byte {
	b := []byte{0}
	if s.Fail {
		b[0] = 1
	}
	for _, st := range s.Steps {
		b = append(b, st.Kind, st.Store, st.Key, st.Val)
	}
	return b
}

func decodeScript(p []byte) script {
	s := script{Fail: len(p) > 0 && p[0] == 1}
	for i := 1; i+3 < len(p); i += 4 {
		s.Steps = append(s.Steps, step{p[i], p[i+1], p[i+2], p[i+3]})
	}
	return s
}

type observation struct {
	fresh map[string]string // state read through fresh views after the command
	old   map[string]string // state read through views obtained before the command
}

type module struct {
	genesisVariant int
	oldViews       [2]statemachine.Store
	lastObs        *observation
}

func sub(i byte) []byte {
	if i == 0 {
		return subA
	}
	return subB
}

func readAll(get func(store byte) statemachine.Store) map[string]string {
	out := map[string]string{}
	for s := byte(0); s < 2; s++ {
		st := get(s)
		for ki, k := range keysU {
			if v, ok := st.Get(k); ok {
				out[fmt.Sprintf("%c.k%d", 'A'+s, ki)] = string(v)
			}
			if st.Has(k) != (func() bool { _, ok := st.Get(k); return ok })() {
				out["HAS-MISMATCH"] = "1"
			}
		}
	}
	return out
}

func (m *module) Name() string { return "verif" }
func (m *module) InitGenesisState(ctx *statemachine.GenesisBlockProcessingContext) error {
	if m.genesisVariant >= 1 {
		ctx.GetStore(storePrefix, subA).Set(keysU[0], vals[2])
		ctx.GetStore(storePrefix, subB).Set(keysU[1], vals[1])
	}
	if m.genesisVariant == 2 {
		ctx.GetStore(storePrefix, subA).Set(keysU[1], []byte{}) // a key stored with an empty value is a stored key
	}
	return nil
}
func (m *module) FinalizeGenesisState(ctx *statemachine.GenesisBlockProcessingContext) error {
	return nil
}
func (m *module) InsertAssets(ctx *statemachine.InsertAssetsContext) error { return nil }
func (m *module) VerifyAssets(ctx *statemachine.VerifyAssetsContext) error { return nil }
func (m *module) VerifyTransaction(ctx *statemachine.TransactionVerifyContext) statemachine.VerifyResult {
	return statemachine.NewVerifyResultOK()
}
func (m *module) BeforeTransactionsExecute(ctx *statemachine.BeforeTransactionsExecuteContext) error {
	return nil
}
func (m *module) AfterTransactionsExecute(ctx *statemachine.AfterTransactionsExecuteContext) error {
	return nil
}
func (m *module) BeforeCommandExecute(ctx *statemachine.TransactionExecuteContext) error {
	m.oldViews[0] = ctx.GetStore(storePrefix, subA)
	m.oldViews[1] = ctx.GetStore(storePrefix, subB)
	// an event of the same transaction logged before the command runs (it precedes the command's snapshot)
	return ctx.EventQueue().Add("verif", "before", []byte{0xbe}, []codec.Hex{[]byte{0x33}})
}
func (m *module) AfterCommandExecute(ctx *statemachine.TransactionExecuteContext) error {
	m.lastObs = &observation{
		fresh: readAll(func(s byte) statemachine.Store { return ctx.GetStore(storePrefix, sub(s)) }),
		old:   readAll(func(s byte) statemachine.Store { return m.oldViews[s] }),
	}
	return nil
}
func (m *module) GetCommand(name string) (statemachine.Command, bool) {
	if name == "run" {
		return &command{m}, true
	}
	return nil, false
}
func (m *module) Endpoint() statemachine.Endpoint { return endpoint{} }
func (m *module) Init(cfg []byte) error           { return nil }

type endpoint struct{}

func (endpoint) Get() statemachine.EndpointHandlers { return statemachine.EndpointHandlers{} }

type command struct{ m *module }

func (c *command) ID() uint32   { return 1 }
func (c *command) Name() string { return "run" }
func (c *command) Verify(ctx *statemachine.TransactionVerifyContext) statemachine.VerifyResult {
	return statemachine.NewVerifyResultOK()
}
func (c *command) Execute(ctx *statemachine.TransactionExecuteContext) error {
	s := decodeScript(ctx.Transaction().Params())
	// one view obtained before any write, one obtained per step
	early := [2]statemachine.Store{ctx.GetStore(storePrefix, subA), ctx.GetStore(storePrefix, subB)}
	for i, st := range s.Steps {
		switch st.Kind {
		case 0:
			view := early[st.Store]
			if i%2 == 1 {
				view = ctx.GetStore(storePrefix, sub(st.Store))
			}
			if st.Val == 0 {
				view.Del(keysU[st.Key])
			} else {
				view.Set(keysU[st.Key], vals[st.Val])
			}
		case 1:
			if err := ctx.EventQueue().Add("verif", "revertible", []byte{byte(i)}, []codec.Hex{[]byte{0x11}}); err != nil {
				return err
			}
		case 2:
			if err := ctx.EventQueue().AddUnrevertible("verif", "unrevertible", []byte{byte(i)}, []codec.Hex{[]byte{0x22}}); err != nil {
				return err
			}
		}
	}
	if s.Fail {
		return errors.New("scripted command failure")
	}
	return nil
}

// ---- application fixture -----------------------------------------------------------------------

type app struct {
	h       *framework.ABIHandler
	mod     *module
	stateDB *db.DB
	modDB   *db.DB
	chainID []byte
}

func newApp(stateDB, modDB *db.DB, variant int) *app {
	a := &app{stateDB: stateDB, modDB: modDB, chainID: []byte{4, 0, 0, 1}, mod: &module{genesisVariant: variant}}
	sm := statemachine.NewExecuter()
	sm.Init(nolog.L{})
	if err := sm.AddModule(a.mod); err != nil {
		panic(err)
	}
	g := blockchain.NewGenesisBlock(0, 1000, bytes.Repeat([]byte{0}, 32), blockchain.BlockAssets{})
	g.Header.Init()
	a.h = framework.NewABIHandler(context.Background(), &fconfig.ApplicationConfig{}, nolog.L{}, sm, g, stateDB, modDB, []framework.Module{a.mod})
	return a
}

func freshApp(variant int) *app {
	s, _ := db.NewInMemoryDB()
	m, _ := db.NewInMemoryDB()
	return newApp(s, m, variant)
}

func (a *app) close() { _ = a.stateDB.Close(); _ = a.modDB.Close() }

func header(h uint32) *blockchain.BlockHeader {
	hd := &blockchain.BlockHeader{Version: 2, Height: h, Timestamp: 1000 + h*10, PreviousBlockID: bytes.Repeat([]byte{byte(h)}, 32), GeneratorAddress: bytes.Repeat([]byte{1}, 20),
		AggregateCommit: &blockchain.AggregateCommit{AggregationBits: []byte{}, CertificateSignature: []byte{}}, Signature: make([]byte, 64)}
	if h == 0 {
		hd.Version = 0
	}
	return hd
}

func consensusInfo() *labi.Consensus {
	return &labi.Consensus{CurrentValidators: []*labi.Validator{{Address: bytes.Repeat([]byte{1}, 20), BFTWeight: 1, GeneratorKey: make([]byte, 32), BLSKey: make([]byte, 48)}}, CertificateThreshold: 1}
}

// genesis executes and commits the genesis block; returns the state root.
func (a *app) genesis() ([]byte, error) {
	if _, err := a.h.Init(&labi.InitRequest{ChainID: a.chainID, LastBlockHeight: 0, LastStateRoot: ref.EmptyHash}); err != nil {
		return nil, err
	}
	res, err := a.h.InitStateMachine(&labi.InitStateMachineRequest{Header: header(0)})
	if err != nil {
		return nil, err
	}
	if _, err := a.h.InitGenesisState(&labi.InitGenesisStateRequest{ContextID: res.ContextID}); err != nil {
		return nil, err
	}
	c, err := a.h.Commit(&labi.CommitRequest{ContextID: res.ContextID, StateRoot: []byte{}, ExpectedStateRoot: nil, DryRun: false})
	if err != nil {
		return nil, err
	}
	_, _ = a.h.Clear(&labi.ClearRequest{})
	return c.StateRoot, nil
}

type txResult struct {
	events []*blockchain.Event
	code   int32
	obs    *observation
}

func mkTx(s script, nonce uint64) *blockchain.Transaction {
	tx := &blockchain.Transaction{Module: "verif", Command: "run", Nonce: nonce, Fee: 1, SenderPublicKey: bytes.Repeat([]byte{7}, 32), Params: s.encode(), Signatures: []codec.Hex{make([]byte, 64)}}
	tx.Init()
	return tx
}

// block executes one block with the given scripts exactly as the engine's block processing does, and commits it.
func (a *app) block(h uint32, prevRoot []byte, scripts []script) ([]txResult, []byte, error) {
	hd := header(h)
	res, err := a.h.InitStateMachine(&labi.InitStateMachineRequest{Header: hd})
	if err != nil {
		return nil, nil, err
	}
	defer a.h.Clear(&labi.ClearRequest{}) //nolint:errcheck // harness
	cons := consensusInfo()
	if _, err := a.h.BeforeTransactionsExecute(&labi.BeforeTransactionsExecuteRequest{ContextID: res.ContextID, Assets: nil, Consensus: cons}); err != nil {
		return nil, nil, err
	}
	out := []txResult{}
	txs := []*blockchain.Transaction{}
	for i, s := range scripts {
		tx := mkTx(s, uint64(h)*10+uint64(i))
		txs = append(txs, tx)
		if _, err := a.h.VerifyTransaction(&labi.VerifyTransactionRequest{ContextID: res.ContextID, Transaction: tx}); err != nil {
			return nil, nil, err
		}
		a.mod.lastObs = nil
		// the engine's block processing (consensus/abi_caller.go) builds the request with these fields
		er, err := a.h.ExecuteTransaction(&labi.ExecuteTransactionRequest{ContextID: res.ContextID, Assets: nil, Header: hd, Transaction: tx, DryRun: false, Consensus: engineConsensusForExecute(cons)})
		if err != nil {
			return nil, nil, err
		}
		out = append(out, txResult{er.Events, er.Result, a.mod.lastObs})
	}
	if _, err := a.h.AfterTransactionsExecute(&labi.AfterTransactionsExecuteRequest{ContextID: res.ContextID, Assets: nil, Consensus: cons, Transactions: txs}); err != nil {
		return nil, nil, err
	}
	c, err := a.h.Commit(&labi.CommitRequest{ContextID: res.ContextID, StateRoot: prevRoot, ExpectedStateRoot: nil, DryRun: false})
	if err != nil {
		return nil, nil, err
	}
	return out, c.StateRoot, nil
}

func (a *app) revertBlock(h uint32, root, expected []byte) ([]byte, error) {
	res, err := a.h.InitStateMachine(&labi.InitStateMachineRequest{Header: header(h)})
	if err != nil {
		return nil, err
	}
	defer a.h.Clear(&labi.ClearRequest{}) //nolint:errcheck // harness
	r, err := a.h.Revert(&labi.RevertRequest{ContextID: res.ContextID, StateRoot: root, ExpectedStateRoot: expected})
	if err != nil {
		return nil, err
	}
	return r.StateRoot, nil
}

// committed state: module store entries in the state DB (prefix {0}), as "S.kN" -> value
func (a *app) dump() map[string]string {
	out := map[string]string{}
	for _, kv := range a.stateDB.Iterate(framework.StateDBPrefixState, -1, false) {
		k := kv.Key()[1:]
		name := fmt.Sprintf("%x", k)
		for s := byte(0); s < 2; s++ {
			for ki, key := range keysU {
				if bytes.Equal(k, append(append(append([]byte{}, storePrefix...), sub(s)...), key...)) {
					name = fmt.Sprintf("%c.k%d", 'A'+s, ki)
				}
			}
		}
		out[name] = string(kv.Value())
	}
	return out
}

// refRoot: sparse-Merkle root of {storePrefix|sub|H(key) -> H(value)} over the state.
func refRoot(state map[string]string) []byte {
	m := map[string][]byte{}
	for name, v := range state {
		var s byte
		var ki int
		if _, err := fmt.Sscanf(name, "%c.k%d", &s, &ki); err != nil {
			continue
		}
		k := append(append(append([]byte{}, storePrefix...), sub(s-'A')...), crypto.Hash(keysU[ki])...)
		m[string(k)] = crypto.Hash([]byte(v))
	}
	return ref.SMTRoot(m)
}

func applyModel(state map[string]string, s script) map[string]string {
	out := map[string]string{}
	for k, v := range state {
		out[k] = v
	}
	if s.Fail {
		return out
	}
	for _, st := range s.Steps {
		if st.Kind != 0 {
			continue
		}
		name := fmt.Sprintf("%c.k%d", 'A'+st.Store, st.Key)
		if st.Val == 0 {
			delete(out, name)
		} else {
			out[name] = string(vals[st.Val])
		}
	}
	return out
}

func eqState(a, b map[string]string) bool {
	if len(a) != len(b) {
		return false
	}
	for k, v := range a {
		if w, ok := b[k]; !ok || w != v {
			return false
		}
	}
	return true
}

func show(m map[string]string) string {
	k := []string{}
	for n, v := range m {
		k = append(k, n+"="+v)
	}
	sort.Strings(k)
	return fmt.Sprint(k)
}

type caseT struct {
	Variant int      `json:"genesis_variant"`
	Script  string   `json:"script"`
	Blocks  []string `json:"blocks,omitempty"`
	What    string   `json:"what"`
}

func (s script) String() string {
	o := fmt.Sprint(s.Steps)
	if s.Fail {
		return o + " then FAIL"
	}
	return o + " then ok"
}

var seen = map[string]bool{}

func report(r *vlib.Run, key, what string, c caseT) {
	if !seen[key] {
		seen[key] = true
		r.Violation(key, what, c)
	} else {
		r.Add("further_violations", 1)
	}
}

func genesisState(v int) map[string]string {
	if v == 1 {
		return map[string]string{"A.k0": string(vals[2]), "B.k1": string(vals[1])}
	}
	if v == 2 {
		return map[string]string{"A.k0": string(vals[2]), "B.k1": string(vals[1]), "A.k1": ""}
	}
	return map[string]string{}
}

// checkEvents verifies the events of one executed transaction.
func checkEvents(r *vlib.Run, s script, res txResult, c caseT) {
	wantNames := []string{"before"}
	for _, st := range s.Steps {
		if st.Kind == 1 && !s.Fail {
			wantNames = append(wantNames, "revertible")
		}
		if st.Kind == 2 {
			wantNames = append(wantNames, "unrevertible")
		}
	}
	wantNames = append(wantNames, blockchain.EventNameDefault)
	got := []string{}
	for i, e := range res.events {
		got = append(got, e.Name)
		if e.Index != uint32(i) {
			report(r, "event-index-not-consecutive", fmt.Sprintf("event %d of the transaction carries index %d (script %v)", i, e.Index, s), c)
		}
	}
	if fmt.Sprint(got) != fmt.Sprint(wantNames) {
		k := "events-differ"
		if s.Fail {
			k = "events-of-failed-command-differ"
		}
		report(r, k, fmt.Sprintf("events %v, expected %v (script %v)", got, wantNames, s), c)
		return
	}
	last := res.events[len(res.events)-1]
	std := &blockchain.StandardTransactionEvent{}
	if err := std.Decode(last.Data); err != nil || std.Success == s.Fail {
		report(r, "standard-event-wrong", fmt.Sprintf("standard event reports success=%v for script %v", std.Success, s), c)
	}
}

func main() {
	r := vlib.Start("C16", "model_checking", 4*time.Minute, 20*time.Minute)
	r.Assume("requests are built with the fields the engine's block processing fills in (pkg/consensus/abi_caller.go); the scripted module owns two stores with two keys each")
	maxSteps := 3
	if r.Thorough() {
		maxSteps = 4
	}
	alphabet := []step{}
	for st := byte(0); st < 2; st++ {
		for k := byte(0); k < 2; k++ {
			for v := byte(0); v < 3; v++ {
				alphabet = append(alphabet, step{0, st, k, v})
			}
		}
	}
	alphabet = append(alphabet, step{Kind: 1}, step{Kind: 2})
	scripts := []script{}
	var gen func(p []step)
	gen = func(p []step) {
		for _, f := range []bool{false, true} {
			scripts = append(scripts, script{append([]step{}, p...), f})
		}
		if len(p) == maxSteps {
			return
		}
		for _, a := range alphabet {
			gen(append(p, a))
		}
	}
	gen(nil)
	// ---- (1) single transaction atomicity, state root, revert ----
	type job struct {
		variant int
		si      int
	}
	jobs := []job{}
	for v := 0; v < 3; v++ {
		for si := range scripts {
			jobs = append(jobs, job{v, si})
		}
	}
	r.RunSharded(len(jobs), func(ji int) {
		if r.Expired() {
			r.Cap("deadline")
			return
		}
		j := jobs[ji]
		s := scripts[j.si]
		c := caseT{Variant: j.variant, Script: s.String(), What: "single transaction"}
		a := freshApp(j.variant)
		defer a.close()
		var root0 []byte
		var err error
		if p := vlib.Catch(func() { root0, err = a.genesis() }); p != "" || err != nil {
			report(r, "genesis-fails", fmt.Sprint(err, p), c)
			return
		}
		pre := genesisState(j.variant)
		if !bytes.Equal(root0, refRoot(pre)) {
			report(r, "genesis-root-differs", fmt.Sprintf("genesis state root is not the sparse-Merkle root of the genesis state %s", show(pre)), c)
		}
		var res []txResult
		var root1 []byte
		if p := vlib.Catch(func() { res, root1, err = a.block(1, root0, []script{s}) }); p != "" {
			report(r, "block-execution-panics", fmt.Sprintf("executing a block through the ABI panics: %s (script %v)", p, s), c)
			return
		}
		if err != nil {
			report(r, "block-execution-fails", fmt.Sprintf("%v (script %v)", err, s), c)
			return
		}
		r.Add("transitions", 1)
		want := applyModel(pre, s)
		tr := res[0]
		wantCode := labi.TxExecuteResultSuccess
		if s.Fail {
			wantCode = labi.TxExecuteResultFail
		}
		if tr.code != wantCode {
			report(r, "result-code", fmt.Sprintf("ExecuteTransaction result %d, expected %d (script %v)", tr.code, wantCode, s), c)
		}
		if tr.obs == nil {
			report(r, "harness-no-observation", "AfterCommandExecute did not run", c)
		} else {
			if !eqState(tr.obs.fresh, want) {
				k := "staged-state-differs"
				if s.Fail {
					k = "failed-command-left-staged-changes"
				}
				report(r, k, fmt.Sprintf("staged state read through fresh views after the command is %s, expected %s (script %v, initial %s)", show(tr.obs.fresh), show(want), s, show(pre)), c)
			}
			if !eqState(tr.obs.old, want) {
				k := "staged-state-differs-through-earlier-views"
				if s.Fail {
					k = "failed-command-visible-through-earlier-views"
				}
				report(r, k, fmt.Sprintf("staged state read through views obtained before the command is %s, expected %s (script %v, initial %s)", show(tr.obs.old), show(want), s, show(pre)), c)
			}
		}
		checkEvents(r, s, tr, c)
		if got := a.dump(); !eqState(got, want) {
			report(r, "committed-state-differs", fmt.Sprintf("committed state %s, expected %s (script %v)", show(got), show(want), s), c)
		}
		if !bytes.Equal(root1, refRoot(want)) {
			k := "state-root-differs"
			for _, st := range s.Steps {
				if st.Kind == 0 && st.Val == 0 && !s.Fail {
					k = "state-root-differs-after-delete"
				}
			}
			report(r, k, fmt.Sprintf("committed state root is not the sparse-Merkle root of the resulting state %s (script %v, initial %s)", show(want), s, show(pre)), c)
		}
		// revert the block: state and root of before
		var rroot []byte
		if p := vlib.Catch(func() { rroot, err = a.revertBlock(1, root1, nil) }); p != "" || err != nil {
			report(r, "revert-fails", fmt.Sprintf("Revert fails: %v %s (script %v)", err, p, s), c)
			return
		}
		r.Add("transitions", 1)
		if got := a.dump(); !eqState(got, pre) {
			report(r, "revert-state-differs", fmt.Sprintf("state after Revert %s, expected %s (script %v)", show(got), show(pre), s), c)
		}
		if !bytes.Equal(rroot, root0) {
			report(r, "revert-root-differs", fmt.Sprintf("state root after Revert differs from the root before the block (script %v, initial %s)", s, show(pre)), c)
		}
		r.Add("states", 1)
	})
	// ---- (1b) two transactions in one block: what the first one staged (including deletions of persisted keys)
	// survives the failure or success of the second ----
	if !inWorker() {
		firsts := []script{}
		seconds := []script{}
		for _, sc := range scripts {
			if len(sc.Steps) == 1 && sc.Steps[0].Kind == 0 && !sc.Fail {
				firsts = append(firsts, sc)
			}
			if len(sc.Steps) <= 1 {
				seconds = append(seconds, sc)
			}
		}
		for v := 0; v < 3; v++ {
			for _, s1 := range firsts {
				for _, s2 := range seconds {
					c := caseT{Variant: v, Blocks: []string{s1.String() + " ; " + s2.String()}, What: "two transactions in one block"}
					a := freshApp(v)
					var root0, root1 []byte
					var err error
					if p := vlib.Catch(func() { root0, err = a.genesis() }); p != "" || err != nil {
						a.close()
						continue
					}
					pre := genesisState(v)
					if p := vlib.Catch(func() { _, root1, err = a.block(1, root0, []script{s1, s2}) }); p != "" || err != nil {
						report(r, "two-tx-block-fails", fmt.Sprintf("%v %s (scripts %v ; %v)", err, p, s1, s2), c)
						a.close()
						continue
					}
					r.Add("transitions", 1)
					r.Add("two_tx_blocks", 1)
					want := applyModel(applyModel(pre, s1), s2)
					if got := a.dump(); !eqState(got, want) {
						k := "two-tx-committed-state-differs"
						if s2.Fail {
							k = "failed-command-undid-or-redid-earlier-transaction"
						}
						report(r, k, fmt.Sprintf("committed state %s, expected %s (first %v, then %v, initial %s)", show(got), show(want), s1, s2, show(pre)), c)
					} else if !bytes.Equal(root1, refRoot(want)) {
						report(r, "two-tx-state-root-differs", fmt.Sprintf("state root is not the sparse-Merkle root of %s (first %v, then %v)", show(want), s1, s2), c)
					}
					if p := vlib.Catch(func() { _, err = a.revertBlock(1, root1, nil) }); p == "" && err == nil {
						if got := a.dump(); !eqState(got, pre) {
							report(r, "two-tx-revert-state-differs", fmt.Sprintf("state after Revert %s, expected %s (first %v, then %v)", show(got), show(pre), s1, s2), c)
						}
					}
					a.close()
					r.Add("states", 1)
				}
			}
		}
	}
	// ---- (2) block histories with restart recovery (app ahead of the engine by 1 or 2 blocks) ----
	if !inWorker() {
		hs := [][]script{}
		pick := []script{scripts[0]}
		for i := 0; i < len(scripts); i += len(scripts)/9 + 1 {
			pick = append(pick, scripts[i])
		}
		for _, s1 := range pick {
			for _, s2 := range pick[:4] {
				hs = append(hs, []script{s1, s2, pick[len(pick)-1]})
			}
		}
		for v := 0; v < 2; v++ {
			for _, hsc := range hs {
				for _, back := range []int{0, 1, 2} {
					names := []string{}
					for _, s := range hsc {
						names = append(names, s.String())
					}
					c := caseT{Variant: v, Blocks: names, What: fmt.Sprintf("restart with the application %d block(s) ahead", back)}
					a := freshApp(v)
					roots := [][]byte{}
					states := []map[string]string{genesisState(v)}
					var root []byte
					var err error
					if p := vlib.Catch(func() { root, err = a.genesis() }); p != "" || err != nil {
						a.close()
						continue
					}
					roots = append(roots, root)
					ok := true
					for i, s := range hsc {
						var nr []byte
						var err error
						if p := vlib.Catch(func() { _, nr, err = a.block(uint32(i+1), roots[len(roots)-1], []script{s}) }); p != "" {
							err = errors.New(p) // reported by part 1
						}
						if err != nil {
							ok = false
							break
						}
						roots = append(roots, nr)
						states = append(states, applyModel(states[len(states)-1], s))
					}
					if !ok {
						a.close()
						continue
					}
					// restart: a fresh handler on the same databases, the engine's tip is `back` blocks behind
					b := newApp(a.stateDB, a.modDB, v)
					target := len(hsc) - back
					var ierr error
					p := vlib.Catch(func() {
						_, ierr = b.h.Init(&labi.InitRequest{ChainID: b.chainID, LastBlockHeight: uint32(target), LastStateRoot: roots[target]})
					})
					r.Add("transitions", 1)
					r.Add("restart_recoveries", 1)
					if p != "" {
						report(r, "init-recovery-panics", fmt.Sprintf("Init panics when the application is %d block(s) ahead of the engine: %s", back, p), c)
					} else if ierr != nil {
						report(r, "init-recovery-fails", fmt.Sprintf("Init fails when the application is %d block(s) ahead: %v", back, ierr), c)
					} else if got := b.dump(); !eqState(got, states[target]) {
						report(r, "init-recovery-state-differs", fmt.Sprintf("after recovery to height %d the state is %s, expected %s", target, show(got), show(states[target])), c)
					}
					a.close()
				}
			}
		}
	}
	r.Set("traces_validated_against_impl", r.Get("transitions"))
	r.Set("scripts", len(scripts))
	r.Set("explanation", "states = (genesis variant, command script) pairs executed on a fresh real ABIHandler+statemachine: genesis, one block with the scripted transaction (state through fresh and earlier views, events, result code), committed dump and state root against the recursive sparse-Merkle reference, Revert; plus 3-block histories with restart recovery 0-2 blocks back")
	r.Sample(caseT{Variant: 1, Script: script{[]step{{0, 0, 0, 1}, {1, 0, 0, 0}, {0, 1, 1, 0}}, true}.String(), What: "single transaction"})
	r.Finish()
}

func inWorker() bool { return os.Getenv("VERIF_WORKER") != "" }

// engineConsensusForExecute mirrors what the engine's block processing puts into
// ExecuteTransactionRequest.Consensus: the harness reads pkg/consensus/abi_caller.go and passes the consensus
// information only if the engine does.
func engineConsensusForExecute(c *labi.Consensus) *labi.Consensus {
	engineOnce.Do(func() {
		path := "/repo/pkg/consensus/abi_caller.go"
		if mo := os.Getenv("VERIF_MUT_OVERLAY"); mo != "" { // a mutated copy of the file is what gets built
			var m struct{ Replace map[string]string }
			if mb, err := os.ReadFile(mo); err == nil && json.Unmarshal(mb, &m) == nil && m.Replace[path] != "" {
				path = m.Replace[path]
			}
		}
		b, err := os.ReadFile(path)
		if err != nil {
			return
		}
		s := string(b)
		i := strings.Index(s, "labi.ExecuteTransactionRequest{")
		if i < 0 {
			return
		}
		j := strings.Index(s[i:], "})")
		enginePassesConsensus = j > 0 && strings.Contains(s[i:i+j], "Consensus:")
	})
	if enginePassesConsensus {
		return c
	}
	return nil
}

var (
	engineOnce            sync.Once
	enginePassesConsensus bool
)
