// C07: header contradiction (LIP-0014) and fork-choice classification.
//  (a) all ordered header pairs over a small cube + uint32 boundary values
//  (b) IsHeaderContradictingChain on every chain state of a deviation-bounded chain search
//  (c) fork-choice predicates on all (tip, incoming, receive time) tuples of a finite menu
package main

import (
	"fmt"
	"time"

	"github.com/LiskHQ/lisk-engine/pkg/blockchain"
	"github.com/LiskHQ/lisk-engine/pkg/consensus/contradiction"
	"github.com/LiskHQ/lisk-engine/pkg/consensus/forkchoice"
	"github.com/LiskHQ/lisk-engine/pkg/consensus/liskbft"
	"github.com/LiskHQ/lisk-engine/pkg/consensus/validator"

	"verif/bftwalk"
	"verif/bftx"
	"verif/ref"
	"verif/vlib"
)

type pairCase struct {
	A, B    [3]uint32 // height, mhg, mhp
	SameGen bool
}

type ph struct {
	v   [3]uint32
	gen []byte
}

func (p *ph) Height() uint32             { return p.v[0] }
func (p *ph) GeneratorAddress() []byte   { return p.gen }
func (p *ph) MaxHeightGenerated() uint32 { return p.v[1] }
func (p *ph) MaxHeightPrevoted() uint32  { return p.v[2] }

func hdr(v [3]uint32, gen int, id byte) *blockchain.BlockHeader {
	return &blockchain.BlockHeader{ID: []byte{id, byte(v[0]), byte(v[1]), byte(v[2]), byte(v[0] >> 24), byte(v[1] >> 24), byte(v[2] >> 24)}, Version: 2,
		Height: v[0], MaxHeightGenerated: v[1], MaxHeightPrevoted: v[2], GeneratorAddress: bftx.Addr(gen)}
}

func checkPair(r *vlib.Run, api *liskbft.API, a, b [3]uint32, sameGen, withAPI bool) (res bool) {
	ga, gb := 0, 1
	if sameGen {
		gb = 0
	}
	ha := &ph{a, bftx.Addr(ga)}
	hb := &ph{b, bftx.Addr(gb)}
	c1 := contradiction.AreDistinctHeadersContradicting(ha, hb)
	c2 := contradiction.AreDistinctHeadersContradicting(hb, ha)
	ra := ref.CHeader{Gen: string(ha.gen), Height: a[0], MHG: a[1], MHP: a[2]}
	rb := ref.CHeader{Gen: string(hb.gen), Height: b[0], MHG: b[1], MHP: b[2]}
	pc := pairCase{a, b, sameGen}
	small := func(x [3]uint32) bool { return x[0] < 8 && x[1] < 8 && x[2] < 8 }
	key := func(class string) string {
		if small(a) && small(b) {
			return class
		}
		return class + "-boundary"
	}
	if c1 != c2 {
		r.Violation(key("contradiction-asymmetric"), fmt.Sprintf("AreDistinctHeadersContradicting(a,b)=%v but (b,a)=%v for a=%v b=%v sameGen=%v", c1, c2, a, b, sameGen), pc)
	}
	if !sameGen && c1 {
		r.Violation(key("contradiction-different-generators"), fmt.Sprintf("headers of different generators flagged: a=%v b=%v", a, b), pc)
	}
	if lip := ref.ContradictingLIP(ra, rb); c1 != lip {
		r.Violation(key("contradiction-vs-LIP0014-ordered"), fmt.Sprintf("code=%v LIP-0014=%v for a=%v b=%v sameGen=%v", c1, lip, a, b, sameGen), pc)
	}
	if of := ref.ContradictingOrderFree(ra, rb); c1 != of {
		r.Violation(key("contradiction-vs-order-free"), fmt.Sprintf("code=%v order-free reference=%v for a=%v b=%v sameGen=%v", c1, of, a, b, sameGen), pc)
	}
	if withAPI {
		h1, h2 := hdr(a, ga, 1), hdr(b, gb, 2)
		got, err := api.AreHeadersContradicting(h1.Readonly(), h2.Readonly())
		if err != nil || got != c1 {
			r.Violation(key("api-headers-contradicting"), fmt.Sprintf("API.AreHeadersContradicting=%v,%v but predicate=%v for a=%v b=%v", got, err, c1, a, b), pc)
		}
		h2.ID = h1.ID
		same, err := api.AreHeadersContradicting(h1.Readonly(), h2.Readonly())
		if err != nil || same {
			r.Violation(key("api-same-id"), fmt.Sprintf("API.AreHeadersContradicting=%v,%v for identical IDs", same, err), pc)
		}
	}
	return c1
}

func partA(r *vlib.Run) {
	vals := []uint32{0, 1, 2, 3, 4, 5, 6}
	bnd := []uint32{1 << 31, 1<<32 - 2, 1<<32 - 1}
	if r.Thorough() {
		vals = append(vals, 7, 8)
		bnd = append(bnd, 1<<31-1, 1<<16)
	}
	all := append(append([]uint32{}, vals...), bnd...)
	cube := func(vs []uint32) [][3]uint32 {
		out := [][3]uint32{}
		for _, h := range vs {
			for _, g := range vs {
				for _, p := range vs {
					out = append(out, [3]uint32{h, g, p})
				}
			}
		}
		return out
	}
	api := liskbft.NewModule().API()
	var evals, trues int64
	smallCube := cube(vals)
	for _, a := range smallCube {
		for _, b := range smallCube {
			for _, sg := range []bool{true, false} {
				evals++
				if checkPair(r, api, a, b, sg, true) {
					trues++
				}
			}
		}
	}
	bigCube := cube(all)
	isSmall := func(x [3]uint32) bool { return x[0] <= vals[len(vals)-1] && x[1] <= vals[len(vals)-1] && x[2] <= vals[len(vals)-1] }
	for _, a := range bigCube {
		for _, b := range bigCube {
			if isSmall(a) && isSmall(b) {
				continue
			}
			evals++
			if checkPair(r, api, a, b, true, false) {
				trues++
			}
		}
	}
	r.Add("pair_evaluations", evals)
	r.Add("pairs_contradicting", trues)
	r.Add("pairs_not_contradicting", evals-trues)
	r.Sample(map[string]interface{}{"part": "a", "pair": pairCase{[3]uint32{3, 1, 0}, [3]uint32{2, 3, 0}, true}})
}

type chainCase struct {
	Cfg  string         `json:"cfg"`
	Path []bftwalk.Step `json:"path"`
	Cand [3]uint32      `json:"candidate_height_mhg_mhp"`
	Gen  int            `json:"gen"`
}

func partB(r *vlib.Run) {
	eq := func(n int) bftwalk.Spec {
		w := make([]uint64, n)
		for i := range w {
			w[i] = 1
		}
		W := uint64(n)
		return bftwalk.Spec{Weights: w, Precommit: 2*W/3 + 1, Cert: 2*W/3 + 1}
	}
	cfgs := []struct {
		name string
		c    bftwalk.Config
	}{
		{"b2-n2-d8-dev2", bftwalk.Config{Batch: 2, Init: eq(2), Depth: 8, Budget: 2, MaxVal: 3, ParamMenu: false, NonMember: true, MHGAlts: []int{0, 1, 2, 3, 4}}},
		{"b3-n3-d11-dev1", bftwalk.Config{Batch: 3, Init: eq(3), Depth: 11, Budget: 1, MaxVal: 4, ParamMenu: true, NonMember: true, MHGAlts: []int{0, 1, 2, 4}}},
	}
	if r.Thorough() {
		cfgs[0].c.Budget = 3
		cfgs[1].c.Budget = 2
	}
	var states, cands, flagged, strongerDiffers int64
	for _, cf := range cfgs {
		env := bftx.NewEnv(cf.c.Batch)
		w := &bftwalk.Walker{Cfg: cf.c, Env: env, Stop: r.Expired}
		w.Fail = func(k, what string, p []bftwalk.Step) {} // differential mismatches are C02's business
		w.OnTransition = func(parent, child *bftwalk.Node, s bftwalk.Step) bool {
			states++
			tip := child.Height
			lo := uint32(0)
			if tip > 2 {
				lo = tip - 2
			}
			for g := 0; g <= cf.c.MaxVal; g++ {
				gen := g
				if g == cf.c.MaxVal {
					gen = 99
				}
				gaddr := string(bftx.Addr(gen))
				// most recent header by gen inside the window, and all of them
				var recent *ref.BInfo
				for _, i := range child.Ref.Infos {
					if i.Generator == gaddr && (recent == nil || i.Height > recent.Height) {
						recent = i
					}
				}
				for h := lo; h <= tip+1; h++ {
					for mhg := lo; mhg <= tip+1; mhg++ {
						for _, mhp := range []uint32{0, child.Ref.MaxPrevoted, child.Ref.MaxPrevoted + 1} {
							cands++
							cand := &bftx.Hdr{H: h, MHG: mhg, MHP: mhp, Gen: bftx.Addr(gen), IDv: []byte("cand")}
							got := env.Contradicting(child.St, cand)
							rc := ref.CHeader{Gen: gaddr, Height: h, MHG: mhg, MHP: mhp}
							want := false
							if recent != nil {
								want = ref.ContradictingOrderFree(ref.CHeader{Gen: gaddr, Height: recent.Height, MHG: recent.MHG, MHP: recent.MHP}, rc)
							}
							if got {
								flagged++
							}
							if got != want {
								r.Violation("chain-contradiction-vs-reference", fmt.Sprintf("IsHeaderContradictingChain=%v, reference (most recent header of the generator in the window)=%v; candidate h=%d mhg=%d mhp=%d gen=%d after %v", got, want, h, mhg, mhp, gen, child.Path),
									chainCase{cf.name, child.Path, [3]uint32{h, mhg, mhp}, gen})
							}
							anyC := false
							for _, i := range child.Ref.Infos {
								if i.Generator == gaddr && ref.ContradictingOrderFree(ref.CHeader{Gen: gaddr, Height: i.Height, MHG: i.MHG, MHP: i.MHP}, rc) {
									anyC = true
								}
							}
							if anyC != want {
								strongerDiffers++
							}
						}
					}
				}
			}
			return true
		}
		w.Walk(w.Root(), cf.c.Budget)
		if r.Expired() {
			r.Cap("deadline in part b " + cf.name)
		}
	}
	r.Add("chain_states", states)
	r.Add("chain_candidates", cands)
	r.Add("chain_candidates_flagged", flagged)
	r.Add("chain_stronger_reading_differs", strongerDiffers)
	r.Sample(map[string]interface{}{"part": "b", "cfg": cfgs[0].name, "note": "every candidate (gen, height, mhg, mhp) near the tip in every visited chain state"})
}

type fcCase struct {
	Tip, In  fcHdr
	LastRecv int // -1 nil, else slot in which the tip was received
	CurRecv  int // slot in which the incoming block is received
}

type fcHdr struct {
	Height, MHP uint32
	Prev        byte
	Gen         int
	Slot        int
	ID          byte
}

const genesisTs, blockTime = 1000, 10

func (h fcHdr) header() *blockchain.BlockHeader {
	return &blockchain.BlockHeader{ID: []byte{h.ID}, Version: 2, Height: h.Height, MaxHeightPrevoted: h.MHP,
		PreviousBlockID: []byte{h.Prev}, GeneratorAddress: bftx.Addr(h.Gen), Timestamp: uint32(genesisTs + h.Slot*blockTime + 3)}
}

func refClass(c fcCase) (identical, valid, double, tie, different bool) {
	t, b := c.Tip, c.In
	identical = t.ID == b.ID
	valid = b.Height == t.Height+1 && b.Prev == t.ID
	dup := t.Height == b.Height && t.MHP == b.MHP && t.Prev == b.Prev
	double = dup && t.Gen == b.Gen
	lastInSlot := c.LastRecv == -1 || c.LastRecv == t.Slot
	tie = dup && t.Slot < b.Slot && !lastInSlot && c.CurRecv == b.Slot
	different = t.MHP < b.MHP || (t.MHP == b.MHP && t.Height < b.Height)
	return
}

func partC(r *vlib.Run) {
	slot := validator.NewBlockSlot(genesisTs, blockTime)
	var evals int64
	classCount := map[string]int64{}
	tips := []fcHdr{}
	for _, h := range []uint32{2, 3} {
		for _, p := range []uint32{0, 1} {
			for _, prev := range []byte{0xA0, 0xA1} {
				for _, g := range []int{0, 1} {
					for _, s := range []int{5, 6} {
						tips = append(tips, fcHdr{h, p, prev, g, s, 0x10})
					}
				}
			}
		}
	}
	for _, t := range tips {
		for _, lr := range []int{-1, t.Slot, t.Slot + 1} {
			for _, h := range []uint32{2, 3, 4} {
				for _, p := range []uint32{0, 1, 2} {
					for _, prev := range []byte{0xA0, 0xA1, 0x10} {
						for _, g := range []int{0, 1} {
							for _, s := range []int{5, 6, 7} {
								for _, id := range []byte{0x10, 0x20} {
									for _, cr := range []int{s, s + 1} {
										c := fcCase{Tip: t, In: fcHdr{h, p, prev, g, s, id}, LastRecv: lr, CurRecv: cr}
										evals++
										var lrT *time.Time
										if lr >= 0 {
											x := time.Unix(int64(genesisTs+lr*blockTime+4), 0)
											lrT = &x
										}
										fc := forkchoice.VerifNewForkChoice(t.header(), c.In.header(), slot, lrT, time.Unix(int64(genesisTs+cr*blockTime+5), 0))
										wi, wv, wd, wt, wdf := refClass(c)
										got := [5]bool{fc.IsIdenticalBlock(), fc.IsValidBlock(), fc.IsDoubleForging(), fc.IsTieBreak(), fc.IsDifferentChain()}
										want := [5]bool{wi, wv, wd, wt, wdf}
										names := [5]string{"identical", "valid", "doubleForging", "tieBreak", "differentChain"}
										for i := range got {
											if got[i] != want[i] {
												r.Violation("forkchoice-"+names[i], fmt.Sprintf("predicate %s=%v, LIP-0014 table=%v for %+v", names[i], got[i], want[i], c), c)
											}
										}
										// classification in process() order
										cls := "discard"
										switch {
										case wi:
											cls = "identical"
										case wv:
											cls = "valid"
										case wd:
											cls = "doubleForging"
										case wt:
											cls = "tieBreak"
										case wdf:
											cls = "differentChain"
										}
										classCount[cls]++
										// ordering helpers agree with the lexicographic order on (mhp, height)
										lex := c.In.MHP > t.MHP || (c.In.MHP == t.MHP && c.In.Height > t.Height)
										if forkchoice.IsDifferentChain(t.MHP, c.In.MHP, t.Height, c.In.Height) != lex {
											r.Violation("forkchoice-IsDifferentChain-order", fmt.Sprintf("IsDifferentChain disagrees with (mhp,height) order for %+v", c), c)
										}
									}
								}
							}
						}
					}
				}
			}
		}
	}
	api := liskbft.NewModule().API()
	for h := uint32(0); h < 5; h++ {
		for p := uint32(0); p < 5; p++ {
			for hh := uint32(0); hh < 5; hh++ {
				for hp := uint32(0); hp < 5; hp++ {
					evals++
					hd := &blockchain.BlockHeader{Version: 2, Height: hh, MaxHeightPrevoted: hp}
					got, err := api.HeaderHasPriority(nil, hd.Readonly(), h, p, 0)
					want := hp > p || (hp == p && hh > h)
					if err != nil || got != want {
						r.Violation("HeaderHasPriority-order", fmt.Sprintf("HeaderHasPriority(header h=%d mhp=%d over h=%d mhp=%d)=%v want %v", hh, hp, h, p, got, want), [4]uint32{hh, hp, h, p})
					}
				}
			}
		}
	}
	r.Add("forkchoice_evaluations", evals)
	cc := map[string]interface{}{}
	for k, v := range classCount {
		cc[k] = v
	}
	r.Set("forkchoice_classes_reached", cc)
	r.Sample(map[string]interface{}{"part": "c", "case": fcCase{Tip: tips[0], In: fcHdr{3, 0, 0x10, 1, 6, 0x20}, LastRecv: -1, CurRecv: 6}})
}

func main() {
	r := vlib.Start("C07", "exploration", 3*time.Minute, 15*time.Minute)
	r.Assume("ref/lip14.go states LIP-0014 twice (ordered definition and order-free 'neither is a legitimate successor')")
	r.Assume("part b reads 'a contradicting one inside the window is flagged' as: contradicting the generator's most recent header inside the window (the stronger reading is counted, not asserted)")
	if r.ReplayPath != "" {
		var pc pairCase
		if err := r.ReadReplay(&pc); err == nil && (pc.A != [3]uint32{} || pc.B != [3]uint32{}) {
			checkPair(r, liskbft.NewModule().API(), pc.A, pc.B, pc.SameGen, true)
			r.Finish()
		}
		fmt.Println("replay of part b/c cases: re-running the full (deterministic) enumeration")
	}
	if r.Only == "" || r.Only == "a" {
		partA(r)
	}
	if r.Only == "" || r.Only == "b" {
		partB(r)
	}
	if r.Only == "" || r.Only == "c" {
		partC(r)
	}
	ev := r.Get("pair_evaluations") + r.Get("chain_candidates") + r.Get("forkchoice_evaluations")
	r.Set("evaluations", ev)
	// non-trivial = evaluations in which the relation under test holds (contradicting pairs, flagged candidates, non-discard classes)
	nt := r.Get("pairs_contradicting") + r.Get("chain_candidates_flagged")
	if cc, ok := r.Cov["forkchoice_classes_reached"].(map[string]interface{}); ok {
		for k, v := range cc {
			if k != "discard" {
				nt += v.(int64)
			}
		}
	}
	r.Set("distinct_nontrivial", nt)
	r.Set("rule", "complete enumeration: (a) all ordered pairs of (height,mhg,mhp) triples over [0..6]^3 x same/different generator incl. API and same-ID, plus all pairs involving uint32 boundary values; (b) every candidate header near the tip in every state of a deviation-bounded chain search on the real module; (c) all tip/incoming/receive-time tuples of the menu. Every enumerated case is distinct by construction; non-trivial = cases where the relation holds (contradicting / flagged / classified other than discard)")
	r.Finish()
}
