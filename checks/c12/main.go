// C12: reads through the staged store equal the database with the staged writes applied.
// Explicit-state: every sequence of <=D operations (set/del/get/range/iterate/snapshot/restore through
// three prefix views) on the real diffdb.Database over a real (in-memory pebble) db.DB, and in every
// reached state the complete read battery, compared with a sorted-map model. Commit/RevertDiff and
// the database's own scans are checked against the same model.
package main

import (
	"bytes"
	"fmt"
	"sort"
	"time"

	"github.com/LiskHQ/lisk-engine/pkg/db"
	"github.com/LiskHQ/lisk-engine/pkg/db/diffdb"

	"verif/vlib"
)

// ---- model -----------------------------------------------------------------------------------

type model struct {
	store  map[string]string  // database content (global keys)
	staged map[string]*string // overlay: nil = staged delete
	snaps  map[int]map[string]*string
	nsnap  [3]int // next snapshot id per view (ids are per view object)
}

func (m *model) clone() *model {
	c := &model{store: m.store, staged: map[string]*string{}, snaps: map[int]map[string]*string{}, nsnap: m.nsnap}
	for k, v := range m.staged {
		c.staged[k] = v
	}
	for id, s := range m.snaps {
		c.snaps[id] = s
	}
	return c
}

func (m *model) merged() map[string]string {
	out := map[string]string{}
	for k, v := range m.store {
		out[k] = v
	}
	for k, v := range m.staged {
		if v == nil {
			delete(out, k)
		} else {
			out[k] = *v
		}
	}
	return out
}

type kv struct{ K, V string }

func sel(mm map[string]string, keep func(k string) bool, strip int, limit int, reverse bool) []kv {
	keys := []string{}
	for k := range mm {
		if keep(k) {
			keys = append(keys, k)
		}
	}
	sort.Strings(keys)
	if reverse {
		for i, j := 0, len(keys)-1; i < j; i, j = i+1, j-1 {
			keys[i], keys[j] = keys[j], keys[i]
		}
	}
	if limit > -1 && len(keys) > limit {
		keys = keys[:limit]
	}
	out := []kv{}
	for _, k := range keys {
		out = append(out, kv{k[strip:], mm[k]})
	}
	return out
}

// ---- universe ----------------------------------------------------------------------------------

var viewPrefix = []string{"", "a", "ab"}

// local keys usable through each view (global key = prefix + local)
var localKeys = [][]string{
	{"a", "ab", "aba", "ab\xff", "b", "\xff\xff"},
	{"", "b", "ba", "b\xff", "\xff"},
	{"", "a", "\xff"},
}
var values = []string{"x", "y"}

var initialDBs = [][]string{
	{},
	{"a", "ab", "aba", "ab\xff", "b", "\xff\xff", "a\xff"},
	{"ab", "ab\xff"},
	{"a", "b"},
	{"aba", "a\xff", "\xff\xff"},
	{"a", "ab", "b"},
}

type op struct {
	Kind    string `json:"kind"` // set del get range iterate snap restore delsnap
	View    int    `json:"view"`
	Key     string `json:"key,omitempty"`
	Val     string `json:"val,omitempty"`
	End     string `json:"end,omitempty"`
	Limit   int    `json:"limit,omitempty"`
	Reverse bool   `json:"reverse,omitempty"`
	Snap    int    `json:"snap,omitempty"`
}

func (o op) String() string {
	return fmt.Sprintf("%s(v%d,%q,%q,%q,%d,%v,%d)", o.Kind, o.View, o.Key, o.Val, o.End, o.Limit, o.Reverse, o.Snap)
}

type world struct {
	views     [3]*diffdb.Database
	m         *model
	snapOwner map[int]int // model snapshot id -> (view, real id) encoded view*100+id
}

func newWorld(d *db.DB, store map[string]string) *world {
	w := &world{m: &model{store: store, staged: map[string]*string{}, snaps: map[int]map[string]*string{}}, snapOwner: map[int]int{}}
	w.views[0] = diffdb.New(d, []byte{})
	w.views[1] = w.views[0].WithPrefix([]byte("a"))
	w.views[2] = w.views[1].WithPrefix([]byte("b"))
	return w
}

func kvsOf(res []db.KeyValue) []kv {
	out := []kv{}
	for _, e := range res {
		out = append(out, kv{string(e.Key()), string(e.Value())})
	}
	return out
}

func eqKV(a, b []kv) bool {
	if len(a) != len(b) {
		return false
	}
	for i := range a {
		if a[i] != b[i] {
			return false
		}
	}
	return true
}

// exec runs one operation on both sides; returns a description of the disagreement ("" if none).
func (w *world) exec(o op) string {
	v := w.views[o.View]
	p := viewPrefix[o.View]
	g := p + o.Key
	switch o.Kind {
	case "set":
		v.Set([]byte(o.Key), []byte(o.Val))
		val := o.Val
		w.m.staged[g] = &val
	case "del":
		v.Del([]byte(o.Key))
		w.m.staged[g] = nil
	case "get":
		got, ok := v.Get([]byte(o.Key))
		want, wok := w.m.merged()[g]
		if ok != wok || (ok && string(got) != want) {
			return fmt.Sprintf("Get=%q,%v model=%q,%v", got, ok, want, wok)
		}
		if v.Has([]byte(o.Key)) != wok {
			return fmt.Sprintf("Has=%v model=%v", !wok, wok)
		}
	case "range":
		got := kvsOf(v.Range([]byte(o.Key), []byte(o.End), o.Limit, o.Reverse))
		lo, hi := p+o.Key, p+o.End
		want := sel(w.m.merged(), func(k string) bool { return k >= lo && k <= hi }, len(p), o.Limit, o.Reverse)
		if !eqKV(got, want) {
			return fmt.Sprintf("Range=%q model=%q", got, want)
		}
	case "iterate":
		got := kvsOf(v.Iterate([]byte(o.Key), o.Limit, o.Reverse))
		pre := p + o.Key
		want := sel(w.m.merged(), func(k string) bool { return len(k) >= len(pre) && k[:len(pre)] == pre }, len(p), o.Limit, o.Reverse)
		if !eqKV(got, want) {
			return fmt.Sprintf("Iterate=%q model=%q", got, want)
		}
	case "snap":
		id := v.Snapshot()
		cp := map[string]*string{}
		for k, x := range w.m.staged {
			cp[k] = x
		}
		w.m.snaps[o.View*100+id] = cp
	case "restore":
		id := o.View*100 + o.Snap
		s, ok := w.m.snaps[id]
		err := v.RestoreSnapshot(o.Snap)
		if (err == nil) != ok {
			return fmt.Sprintf("RestoreSnapshot err=%v, model has snapshot=%v", err, ok)
		}
		if ok {
			w.m.staged = map[string]*string{}
			for k, x := range s {
				w.m.staged[k] = x
			}
			delete(w.m.snaps, id)
		}
	case "delsnap":
		v.DeleteSnapshot(o.Snap)
		delete(w.m.snaps, o.View*100+o.Snap)
	}
	return ""
}

// battery: every read through every view in the current state.
func battery(w *world) (string, op, int) {
	n := 0
	for vi := 0; vi < 3; vi++ {
		lk := localKeys[vi]
		for _, k := range lk {
			n++
			o := op{Kind: "get", View: vi, Key: k}
			if d := w.exec(o); d != "" {
				return d, o, n
			}
		}
		bounds := append([]string{}, lk...)
		if vi == 0 {
			bounds = append(bounds, "")
		}
		for _, s := range bounds {
			for _, e := range bounds {
				if s > e {
					continue
				}
				for _, lim := range []int{-1, 0, 1, 2} {
					for _, rev := range []bool{false, true} {
						n++
						o := op{Kind: "range", View: vi, Key: s, End: e, Limit: lim, Reverse: rev}
						if d := w.exec(o); d != "" {
							return d, o, n
						}
					}
				}
			}
		}
		for _, pre := range []string{"", "a", "ab", "b", "\xff"} {
			for _, lim := range []int{-1, 1, 2} {
				for _, rev := range []bool{false, true} {
					n++
					o := op{Kind: "iterate", View: vi, Key: pre, Limit: lim, Reverse: rev}
					if d := w.exec(o); d != "" {
						return d, o, n
					}
				}
			}
		}
	}
	return "", op{}, n
}

func alphabet(full bool) []op {
	ops := []op{}
	for vi := 0; vi < 3; vi++ {
		for ki, k := range localKeys[vi] {
			if !full && ki >= 3 {
				continue
			}
			ops = append(ops, op{Kind: "set", View: vi, Key: k, Val: "x"}, op{Kind: "del", View: vi, Key: k})
			if full || ki == 0 {
				ops = append(ops, op{Kind: "set", View: vi, Key: k, Val: "y"})
			}
			ops = append(ops, op{Kind: "get", View: vi, Key: k})
		}
		ops = append(ops, op{Kind: "snap", View: vi}, op{Kind: "restore", View: vi, Snap: 0}, op{Kind: "restore", View: vi, Snap: 1})
		ops = append(ops, op{Kind: "range", View: vi, Key: localKeys[vi][0], End: localKeys[vi][len(localKeys[vi])-1], Limit: 1, Reverse: false})
		ops = append(ops, op{Kind: "iterate", View: vi, Key: "", Limit: -1, Reverse: true})
	}
	ops = append(ops, op{Kind: "delsnap", View: 0, Snap: 0})
	return ops
}

type caseT struct {
	DB  []string `json:"initial_db"`
	Ops []op     `json:"ops"`
	At  *op      `json:"failing_read,omitempty"`
}

func openDB(content []string) (*db.DB, map[string]string) {
	d, err := db.NewInMemoryDB()
	if err != nil {
		panic(err)
	}
	store := map[string]string{}
	for _, k := range content {
		v := "s:" + k
		if k == "b" {
			v = "" // a key stored with an empty value is a stored key
		}
		d.Set([]byte(k), []byte(v))
		store[k] = v
	}
	return d, store
}

func dumpDB(d *db.DB) map[string]string {
	out := map[string]string{}
	for _, e := range d.IterateRange([]byte{}, bytes.Repeat([]byte{0xff}, 8), -1, false) {
		out[string(e.Key())] = string(e.Value())
	}
	return out
}

func eqMap(a, b map[string]string) bool {
	if len(a) != len(b) {
		return false
	}
	for k, v := range a {
		if w, ok := b[k]; !ok || w != v {
			return false
		}
	}
	return true
}

func classOf(o op, d string) string {
	c := o.Kind
	if o.Kind == "range" || o.Kind == "iterate" {
		c += fmt.Sprintf(":limit%d:rev%v", o.Limit, o.Reverse)
	}
	return c
}

func main() {
	r := vlib.Start("C12", "model_checking", 4*time.Minute, 20*time.Minute)
	r.Assume("the model is a sorted map: store + staged overlay + per-view snapshots of the overlay; bounds are inclusive byte-wise; limit -1 = unlimited, otherwise at most limit results")
	r.Assume("Commit is terminal for a staged store (as in the engine: one staged store per block)")
	depth := 3
	full := false
	if r.Thorough() {
		depth = 4
	}
	ops := alphabet(full)
	dbs := initialDBs
	if !r.Thorough() {
		dbs = dbs[:4]
	}

	// ---- (1) the database's own scans ----
	rawViol := 0
	for _, content := range initialDBs {
		d, store := openDB(content)
		bounds := []string{"", "a", "ab", "aba", "ab\xff", "a\xff", "b", "\xff", "\xff\xff"}
		type scanner interface {
			IterateRange(start, end []byte, limit int, reverse bool) []db.KeyValue
			Iterate(prefix []byte, limit int, reverse bool) []db.KeyValue
			IterateKey(prefix []byte, limit int, reverse bool) [][]byte
		}
		rd := d.NewReader()
		for si, sc := range []scanner{d, rd} {
			for _, s := range bounds {
				for _, e := range bounds {
					for _, lim := range []int{-1, 1, 2} {
						for _, rev := range []bool{false, true} {
							r.Add("raw_scans", 1)
							got := kvsOf(sc.IterateRange([]byte(s), []byte(e), lim, rev))
							want := sel(store, func(k string) bool { return k >= s && k <= e }, 0, lim, rev)
							if !eqKV(got, want) && rawViol < 50 {
								rawViol++
								r.Violation(fmt.Sprintf("db-iterate-range:rev%v", rev), fmt.Sprintf("db scanner %d IterateRange(%q,%q,%d,%v) on %q = %q, model %q", si, s, e, lim, rev, content, got, want), caseT{DB: content, At: &op{Kind: "range", Key: s, End: e, Limit: lim, Reverse: rev}})
							}
						}
					}
				}
				for _, lim := range []int{-1, 1, 2} {
					for _, rev := range []bool{false, true} {
						r.Add("raw_scans", 2)
						pre := s
						got := kvsOf(sc.Iterate([]byte(pre), lim, rev))
						want := sel(store, func(k string) bool { return len(k) >= len(pre) && k[:len(pre)] == pre }, 0, lim, rev)
						if pre != "" && !eqKV(got, want) {
							r.Violation(fmt.Sprintf("db-iterate-prefix:rev%v", rev), fmt.Sprintf("db scanner %d Iterate(%q,%d,%v) on %q = %q, model %q", si, pre, lim, rev, content, got, want), caseT{DB: content})
						}
						gk := sc.IterateKey([]byte(pre), lim, rev)
						if pre != "" {
							if len(gk) != len(want) {
								r.Violation("db-iterate-key", fmt.Sprintf("IterateKey(%q,%d,%v) on %q returned %d keys, model %d", pre, lim, rev, content, len(gk), len(want)), caseT{DB: content})
							} else {
								for i := range gk {
									if string(gk[i]) != want[i].K {
										r.Violation("db-iterate-key", fmt.Sprintf("IterateKey(%q,%d,%v) on %q key %d = %q, model %q", pre, lim, rev, content, i, gk[i], want[i].K), caseT{DB: content})
										break
									}
								}
							}
						}
					}
				}
			}
		}
		rd.Close()
		d.Close()
	}

	// ---- (2) staged store: all op sequences up to depth, full read battery in every state ----
	type job struct {
		dbi   int
		first int
	}
	jobs := []job{}
	for di := range dbs {
		for f := range ops {
			jobs = append(jobs, job{di, f})
		}
	}
	if r.ReplayPath != "" {
		var c caseT
		if err := r.ReadReplay(&c); err == nil && len(c.Ops) > 0 {
			d, store := openDB(c.DB)
			w := newWorld(d, store)
			for _, o := range c.Ops {
				if dd := w.exec(o); dd != "" {
					r.Violation("replay", fmt.Sprintf("%v: %s", o, dd), c)
				}
			}
			if dd, o, _ := battery(w); dd != "" {
				r.Violation("replay", fmt.Sprintf("%v: %s", o, dd), c)
			}
		}
		r.Finish()
	}
	seenClass := map[string]bool{}
	r.RunSharded(len(jobs), func(ji int) {
		j := jobs[ji]
		d, store := openDB(dbs[j.dbi])
		defer d.Close()
		var rec func(path []op)
		rec = func(path []op) {
			if r.Expired() {
				r.Cap("deadline")
				return
			}
			// replay the path on a fresh staged store
			w := newWorld(d, store)
			bad := ""
			var badOp op
			for _, o := range path {
				if dd := w.exec(o); dd != "" {
					bad, badOp = dd, o
					break
				}
			}
			r.Add("transitions", 1)
			if bad == "" {
				// commit + revert on a private copy of the database for this state
				if len(path) == depth || len(path) == 1 {
					checkCommit(r, dbs[j.dbi], path)
				}
				var n int
				bad, badOp, n = battery(w)
				r.Add("reads_compared", int64(n))
			}
			if bad != "" {
				cls := classOf(badOp, bad)
				key := "staged-read-differs:" + cls
				if !seenClass[key] {
					seenClass[key] = true
					r.Violation(key, fmt.Sprintf("after %v on db %q: %v: %s", path, dbs[j.dbi], badOp, bad), caseT{dbs[j.dbi], path, &badOp})
				} else {
					r.Add("further_read_disagreements", 1)
				}
				return // states past a disagreement are not explored further
			}
			r.Add("states", 1)
			if len(path) == depth {
				return
			}
			for _, o := range ops {
				rec(append(append([]op{}, path...), o))
			}
		}
		rec([]op{ops[j.first]})
		// snapshot sandwiches (two operations deeper than the general search): a, snapshot, one or two writes, restore.
		// An entry that was only read or only added before the snapshot must come back exactly as it was.
		a := ops[j.first]
		if a.Kind != "snap" && a.Kind != "restore" && a.Kind != "delsnap" {
			for _, b1 := range ops {
				if b1.Kind != "set" && b1.Kind != "del" {
					continue
				}
				for _, b2 := range append([]op{{Kind: "none"}}, ops...) {
					if b2.Kind != "set" && b2.Kind != "del" && b2.Kind != "none" {
						continue
					}
					if b2.Kind != "none" && (b2.View != b1.View && b2.View != a.View) {
						continue // keep the family small: the second write touches a view already involved
					}
					path := []op{a, {Kind: "snap", View: a.View}, b1}
					if b2.Kind != "none" {
						path = append(path, b2)
					}
					path = append(path, op{Kind: "restore", View: a.View, Snap: 0})
					w := newWorld(d, store)
					bad := ""
					var badOp op
					for _, o := range path {
						if dd := w.exec(o); dd != "" {
							bad, badOp = dd, o
							break
						}
					}
					r.Add("transitions", 1)
					r.Add("snapshot_sandwiches", 1)
					if bad == "" {
						var n int
						bad, badOp, n = battery(w)
						r.Add("reads_compared", int64(n))
						if bad == "" && b2.Kind == "none" {
							checkCommit(r, dbs[j.dbi], path)
						}
					}
					if bad != "" {
						key := "staged-read-differs:" + classOf(badOp, bad)
						if !seenClass[key] {
							seenClass[key] = true
							r.Violation(key, fmt.Sprintf("after %v on db %q: %v: %s", path, dbs[j.dbi], badOp, bad), caseT{dbs[j.dbi], path, &badOp})
						} else {
							r.Add("further_read_disagreements", 1)
						}
						continue
					}
					r.Add("states", 1)
				}
			}
		}
		if ji%40 == 0 {
			r.Sample(map[string]interface{}{"initial_db": dbs[j.dbi], "first_op": ops[j.first].String(), "then": fmt.Sprintf("every sequence of up to %d further ops from an alphabet of %d, full read battery after each", depth-1, len(ops))})
		}
	})
	r.Set("traces_validated_against_impl", r.Get("transitions"))
	r.Set("alphabet", len(ops))
	r.Set("depth", depth)
	r.Set("explanation", "states = op sequences replayed on a fresh real diffdb.Database over a real in-memory pebble db.DB; in every state every Get/Has, every Range (all bound pairs x limits x directions) and Iterate through all three prefix views is compared with the sorted-map model; Commit/RevertDiff checked on a private DB copy; plus all raw DB/Reader scans")
	r.Finish()
}

func checkCommit(r *vlib.Run, content []string, path []op) {
	d, store := openDB(content)
	defer d.Close()
	w := newWorld(d, store)
	for _, o := range path {
		if dd := w.exec(o); dd != "" {
			return
		}
	}
	before := dumpDB(d)
	batch := d.NewBatch()
	diff := w.views[0].Commit(batch)
	d.Write(batch)
	r.Add("commits", 1)
	if got, want := dumpDB(d), w.m.merged(); !eqMap(got, want) {
		r.Violation("commit-differs", fmt.Sprintf("after %v on db %q Commit wrote %q, model %q", path, content, got, want), caseT{content, path, nil})
		return
	}
	// the diff must survive its own encoding and revert byte for byte
	dec := &diffdb.Diff{}
	if err := dec.Decode(diff.Encode()); err != nil {
		r.Violation("diff-codec", err.Error(), caseT{content, path, nil})
		return
	}
	b2 := d.NewBatch()
	w.views[0].RevertDiff(b2, dec)
	d.Write(b2)
	if got := dumpDB(d); !eqMap(got, before) {
		r.Violation("revert-differs", fmt.Sprintf("after %v on db %q Commit+RevertDiff left %q, before %q", path, content, got, before), caseT{content, path, nil})
	}
}
