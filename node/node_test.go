package node

import (
	"fmt"
	"testing"
	"time"
)

func TestSmoke(t *testing.T) {
	cfg := DefaultConfig(2)
	n, err := New(cfg)
	if err != nil {
		t.Fatal(err)
	}
	mon := NewMonitor()
	fmt.Println(mon.Check(n, n.DrainEvents()))
	start := time.Now()
	for i := 0; i < 8; i++ {
		sh := Shape{}
		if i%2 == 1 {
			sh.Txs = []TxSpec{{Sender: 0, Nonce: uint64(i), Fee: 10, Script: []byte{0}}}
		}
		b, err := n.Apply(sh)
		if err != nil {
			t.Fatal(i, err)
		}
		pv, pc, c := n.BFTHeights()
		ev := n.DrainEvents()
		fmt.Println(b.Header.Height, pv, pc, c, n.Finalized(), ev, mon.Check(n, ev), len(n.Dump()))
	}
	fmt.Println("per block", time.Since(start)/8)
	tip := n.Tip()
	if err := n.Exec.VerifDeleteBlock(tip, true); err != nil {
		t.Fatal(err)
	}
	fmt.Println("after delete", n.Tip().Header.Height, n.DrainEvents(), n.App.Faults)
	n2, err := n.Restart()
	if err != nil {
		t.Fatal(err)
	}
	fmt.Println("restart tip", n2.Tip().Header.Height)
}
