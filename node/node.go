// Package node is the shared in-process node fixture: a real blockchain.Chain + consensus.Executer
// on an in-memory pebble DB, an unstarted p2p connection, a deterministic mock application (ABI),
// n validators with fixed keys, a forger that builds valid successors, and a monitor.
package node

import (
	"bytes"
	"context"
	"crypto/sha256"
	"encoding/binary"
	"fmt"
	"sort"
	"sync"
	"time"

	"github.com/cockroachdb/pebble"
	"github.com/cockroachdb/pebble/vfs"

	"github.com/LiskHQ/lisk-engine/pkg/blockchain"
	"github.com/LiskHQ/lisk-engine/pkg/codec"
	"github.com/LiskHQ/lisk-engine/pkg/consensus"
	"github.com/LiskHQ/lisk-engine/pkg/consensus/validator"
	"github.com/LiskHQ/lisk-engine/pkg/crypto"
	"github.com/LiskHQ/lisk-engine/pkg/db"
	"github.com/LiskHQ/lisk-engine/pkg/db/diffdb"
	"github.com/LiskHQ/lisk-engine/pkg/labi"
	"github.com/LiskHQ/lisk-engine/pkg/log"
	"github.com/LiskHQ/lisk-engine/pkg/p2p"
	"github.com/LiskHQ/lisk-engine/pkg/trie/rmt"

	"verif/nolog"
	"verif/ref"
)

// ---- keys ----------------------------------------------------------------------------------

type Keys struct {
	Idx     int
	EdPub   []byte
	EdPriv  []byte
	Address []byte
	BLSPub  []byte
	BLSPriv []byte
}

var (
	keyMu    sync.Mutex
	keyCache = map[int]*Keys{}
)

func KeysOf(i int) *Keys {
	keyMu.Lock()
	defer keyMu.Unlock()
	if k, ok := keyCache[i]; ok {
		return k
	}
	pub, priv, err := crypto.GetKeys(fmt.Sprintf("verif validator passphrase number %d", i))
	if err != nil {
		panic(err)
	}
	bls := crypto.BLSKeyGen([]byte(fmt.Sprintf("verif validator bls seed number %04d ........................", i)))
	k := &Keys{Idx: i, EdPub: pub, EdPriv: priv, Address: crypto.GetAddress(pub), BLSPub: bls.PublicKey, BLSPriv: bls.PrivateKey}
	keyCache[i] = k
	return k
}

// ---- configuration -------------------------------------------------------------------------

type ValSet struct {
	Weights   []uint64 // by validator index; 0 = generator only (no BFT weight); -absent = not listed
	Listed    []int    // validator indexes in generator order
	Precommit uint64
	Cert      uint64
}

func EqualSet(n int) ValSet {
	vs := ValSet{Weights: make([]uint64, n)}
	for i := 0; i < n; i++ {
		vs.Weights[i] = 1
		vs.Listed = append(vs.Listed, i)
	}
	W := uint64(n)
	vs.Precommit, vs.Cert = 2*W/3+1, 2*W/3+1
	return vs
}

func WeightedSet(w []uint64, cert uint64) ValSet {
	vs := ValSet{Weights: append([]uint64{}, w...)}
	var W uint64
	for i, x := range w {
		vs.Listed = append(vs.Listed, i)
		W += x
	}
	vs.Precommit, vs.Cert = 2*W/3+1, cert
	if cert == 0 {
		vs.Cert = 2*W/3 + 1
	}
	return vs
}

func (v ValSet) Labi() []*labi.Validator {
	out := []*labi.Validator{}
	for _, i := range v.Listed {
		k := KeysOf(i)
		w := uint64(0)
		if i < len(v.Weights) {
			w = v.Weights[i]
		}
		bls := k.BLSPub
		out = append(out, &labi.Validator{Address: k.Address, BFTWeight: w, GeneratorKey: k.EdPub, BLSKey: bls})
	}
	return out
}

type Config struct {
	Set            ValSet
	BlockTime      uint32
	BatchSize      int
	MaxBlockCache  int
	KeepEvents     int
	MaxPayload     uint32
	ChainID        []byte
	CurrentSlot    int // the slot in which real "now" falls; slots above are in the future
	ValChangeMenu  []ValSet
	GenesisHeight  uint32
	GenesisEvents  int
	ExistingDB     *db.DB // restart on an existing database
	ExistingApp    *MockABI
	GenesisTimeFix uint32   // reuse the genesis timestamp of an earlier instance (restart)
	FS             vfs.FS   // run pebble on this file system (crash simulation); nil = fresh in-memory FS
	RecoverApp     bool     // rebuild the mock application's state-root history from the chain found in the DB
	StartP2P       bool     // start the real libp2p connection (needed by handlers that ban peers, and by sync)
	P2PAddrs       []string // listen addresses when StartP2P (empty: no listener)
	P2PSeed        []byte
	MemTable       int // pebble memtable size (0: 256 KiB)
}

func DefaultConfig(n int) Config {
	return Config{Set: EqualSet(n), BlockTime: 10000, BatchSize: n, MaxBlockCache: 6, KeepEvents: 300,
		MaxPayload: 15 * 1024, ChainID: []byte{4, 0, 0, 7}, CurrentSlot: 1000}
}

// ---- mock application ----------------------------------------------------------------------

// Transaction params script (first byte): 0 ok, 1 verify-invalid, 2 execute-fails (still included),
// 3 verify-pending, 6 executes as invalid but reports events, 9 validator change (second byte = menu index),
// 0xEE ABI error on execute.
type MockABI struct {
	mu      sync.Mutex
	cfg     *Config
	Roots   [][]byte // committed application state roots, index = height - genesis height
	cur     *blockchain.BlockHeader
	curTxs  []*blockchain.Transaction
	ctxOpen bool
	Calls   map[string]int
	Faults  []string // protocol misuse observed (engine calling the app inconsistently)
	pending *ValSet
}

func NewMockABI(cfg *Config) *MockABI { return &MockABI{cfg: cfg, Calls: map[string]int{}} }

func (m *MockABI) fault(f string, a ...interface{}) {
	m.Faults = append(m.Faults, fmt.Sprintf(f, a...))
}

func h256(parts ...[]byte) []byte {
	h := sha256.New()
	for _, p := range parts {
		var l [4]byte
		binary.BigEndian.PutUint32(l[:], uint32(len(p)))
		h.Write(l[:])
		h.Write(p)
	}
	return h.Sum(nil)
}

// NextRoot is the application state root after executing a block with these contents on prev.
func NextRoot(prev []byte, height uint32, txs []*blockchain.Transaction, assets []*blockchain.BlockAsset) []byte {
	parts := [][]byte{prev, {byte(height >> 24), byte(height >> 16), byte(height >> 8), byte(height)}}
	for _, t := range txs {
		parts = append(parts, t.ID)
	}
	for _, a := range assets {
		parts = append(parts, []byte(a.Module), a.Data)
	}
	return h256(parts...)
}

func GenesisRoot() []byte { return h256([]byte("genesis app state")) }

func (m *MockABI) Top() []byte {
	m.mu.Lock()
	defer m.mu.Unlock()
	if len(m.Roots) == 0 {
		return nil
	}
	return m.Roots[len(m.Roots)-1]
}

func (m *MockABI) Init(req *labi.InitRequest) (*labi.InitResponse, error) {
	return &labi.InitResponse{}, nil
}

func (m *MockABI) InitStateMachine(req *labi.InitStateMachineRequest) (*labi.InitStateMachineResponse, error) {
	m.mu.Lock()
	defer m.mu.Unlock()
	m.Calls["InitStateMachine"]++
	m.cur = req.Header
	m.curTxs = nil
	m.ctxOpen = true
	m.pending = nil
	return &labi.InitStateMachineResponse{ContextID: []byte{1, 2, 3, 4}}, nil
}

func (m *MockABI) InitGenesisState(req *labi.InitGenesisStateRequest) (*labi.InitGenesisStateResponse, error) {
	m.mu.Lock()
	defer m.mu.Unlock()
	return &labi.InitGenesisStateResponse{Events: GenesisEvents(m.cfg), PreCommitThreshold: m.cfg.Set.Precommit,
		CertificateThreshold: m.cfg.Set.Cert, NextValidators: m.cfg.Set.Labi()}, nil
}

func GenesisEvents(cfg *Config) []*blockchain.Event {
	evs := []*blockchain.Event{}
	for i := 0; i < cfg.GenesisEvents; i++ {
		evs = append(evs, blockchain.NewEventFromValues("app", "genesisInit", []byte{byte(i)}, []codec.Hex{[]byte{0xfe, byte(i)}}, cfg.GenesisHeight, 0))
	}
	return evs
}

func (m *MockABI) InsertAssets(req *labi.InsertAssetsRequest) (*labi.InsertAssetsResponse, error) {
	return &labi.InsertAssetsResponse{}, nil
}

func (m *MockABI) VerifyAssets(req *labi.VerifyAssetsRequest) (*labi.VerifyAssetsResponse, error) {
	for _, a := range req.Assets {
		if a.Module == "bad" {
			return nil, fmt.Errorf("mock: invalid asset")
		}
	}
	return &labi.VerifyAssetsResponse{}, nil
}

// BlockEvents is the (deterministic) list of events the mock application emits for a block.
func BlockEvents(height uint32, txs []*blockchain.Transaction, assets []*blockchain.BlockAsset) []*blockchain.Event {
	evs := blockchain.Events{}
	for _, a := range assets {
		if a.Module == "ev" {
			evs = append(evs, blockchain.NewEventFromValues("app", "assetSeen", a.Data, []codec.Hex{[]byte{0xa5}}, height, 0))
		}
	}
	for _, t := range txs {
		ok := len(t.Params) == 0 || t.Params[0] != 2
		evs = append(evs, blockchain.NewEventFromValues(t.Module, blockchain.EventNameDefault, blockchain.NewStandardTransactionEventData(ok), []codec.Hex{t.ID}, height, 0))
	}
	evs.UpdateIndex()
	return evs
}

func (m *MockABI) BeforeTransactionsExecute(req *labi.BeforeTransactionsExecuteRequest) (*labi.BeforeTransactionsExecuteResponse, error) {
	m.mu.Lock()
	defer m.mu.Unlock()
	if req.Consensus == nil {
		m.fault("BeforeTransactionsExecute without consensus info")
	}
	evs := []*blockchain.Event{}
	for _, a := range req.Assets {
		if a.Module == "ev" {
			evs = append(evs, blockchain.NewEventFromValues("app", "assetSeen", a.Data, []codec.Hex{[]byte{0xa5}}, m.cur.Height, 0))
		}
	}
	return &labi.BeforeTransactionsExecuteResponse{Events: evs}, nil
}

func (m *MockABI) VerifyTransaction(req *labi.VerifyTransactionRequest) (*labi.VerifyTransactionResponse, error) {
	p := req.Transaction.Params
	res := labi.TxVerifyResultOk
	if len(p) > 0 {
		switch p[0] {
		case 1:
			res = labi.TxVerifyResultInvalid
		case 3:
			res = labi.TxVerifyResultPending
		}
	}
	return &labi.VerifyTransactionResponse{Result: res}, nil
}

func (m *MockABI) ExecuteTransaction(req *labi.ExecuteTransactionRequest) (*labi.ExecuteTransactionResponse, error) {
	m.mu.Lock()
	defer m.mu.Unlock()
	t := req.Transaction
	if len(t.Params) > 0 && t.Params[0] == 0xEE {
		return nil, fmt.Errorf("mock: application error while executing")
	}
	if len(t.Params) > 0 && t.Params[0] == 6 {
		// passes verification but executes as invalid, and (as the framework does when a hook after the command
		// fails) still reports the events produced so far: the transaction may not be included in a block
		h := uint32(0)
		if m.cur != nil {
			h = m.cur.Height
		}
		ev := blockchain.NewEventFromValues(t.Module, "partial", []byte{6}, []codec.Hex{t.ID}, h, 0)
		return &labi.ExecuteTransactionResponse{Events: []*blockchain.Event{ev}, Result: labi.TxExecuteResultInvalid}, nil
	}
	ok := len(t.Params) == 0 || t.Params[0] != 2
	if len(t.Params) >= 2 && t.Params[0] == 9 && int(t.Params[1]) < len(m.cfg.ValChangeMenu) {
		vs := m.cfg.ValChangeMenu[t.Params[1]]
		m.pending = &vs
	}
	m.curTxs = append(m.curTxs, t)
	res := labi.TxExecuteResultSuccess
	if !ok {
		res = labi.TxExecuteResultFail
	}
	h := uint32(0)
	if m.cur != nil {
		h = m.cur.Height
	}
	ev := blockchain.NewEventFromValues(t.Module, blockchain.EventNameDefault, blockchain.NewStandardTransactionEventData(ok), []codec.Hex{t.ID}, h, 0)
	return &labi.ExecuteTransactionResponse{Events: []*blockchain.Event{ev}, Result: res}, nil
}

func (m *MockABI) AfterTransactionsExecute(req *labi.AfterTransactionsExecuteRequest) (*labi.AfterTransactionsExecuteResponse, error) {
	m.mu.Lock()
	defer m.mu.Unlock()
	resp := &labi.AfterTransactionsExecuteResponse{}
	if m.pending != nil {
		resp.PreCommitThreshold, resp.CertificateThreshold, resp.NextValidators = m.pending.Precommit, m.pending.Cert, m.pending.Labi()
	}
	return resp, nil
}

func (m *MockABI) Commit(req *labi.CommitRequest) (*labi.CommitResponse, error) {
	m.mu.Lock()
	defer m.mu.Unlock()
	m.Calls["Commit"]++
	if m.cur == nil {
		return nil, fmt.Errorf("mock: commit without context")
	}
	var root []byte
	if m.cur.Version == 0 {
		root = GenesisRoot()
		if len(m.Roots) != 0 && !req.DryRun {
			m.fault("genesis commit on non-empty app")
		}
	} else {
		if len(m.Roots) == 0 || !bytes.Equal(req.StateRoot, m.Roots[len(m.Roots)-1]) {
			return nil, fmt.Errorf("mock: commit on state root %x but application is at %x", req.StateRoot, m.Top0())
		}
		root = NextRoot(req.StateRoot, m.cur.Height, m.curTxs, nil)
	}
	if req.DryRun {
		return &labi.CommitResponse{StateRoot: root}, nil
	}
	if len(req.ExpectedStateRoot) != 0 && !bytes.Equal(req.ExpectedStateRoot, root) {
		return nil, fmt.Errorf("mock: state root mismatch: expected %x computed %x", req.ExpectedStateRoot, root)
	}
	m.Roots = append(m.Roots, root)
	return &labi.CommitResponse{StateRoot: root}, nil
}

func (m *MockABI) Top0() []byte {
	if len(m.Roots) == 0 {
		return nil
	}
	return m.Roots[len(m.Roots)-1]
}

func (m *MockABI) Revert(req *labi.RevertRequest) (*labi.RevertResponse, error) {
	m.mu.Lock()
	defer m.mu.Unlock()
	m.Calls["Revert"]++
	if len(m.Roots) < 2 {
		return nil, fmt.Errorf("mock: nothing to revert")
	}
	if !bytes.Equal(req.StateRoot, m.Roots[len(m.Roots)-1]) {
		return nil, fmt.Errorf("mock: revert from %x but application is at %x", req.StateRoot, m.Roots[len(m.Roots)-1])
	}
	prev := m.Roots[len(m.Roots)-2]
	if !bytes.Equal(req.ExpectedStateRoot, prev) {
		return nil, fmt.Errorf("mock: revert expected %x but previous is %x", req.ExpectedStateRoot, prev)
	}
	m.Roots = m.Roots[:len(m.Roots)-1]
	return &labi.RevertResponse{StateRoot: prev}, nil
}

func (m *MockABI) Clear(req *labi.ClearRequest) (*labi.ClearResponse, error) {
	m.mu.Lock()
	defer m.mu.Unlock()
	m.ctxOpen = false
	return &labi.ClearResponse{}, nil
}
func (m *MockABI) Finalize(req *labi.FinalizeRequest) (*labi.FinalizeResponse, error) {
	return &labi.FinalizeResponse{}, nil
}
func (m *MockABI) GetMetadata(req *labi.MetadataRequest) (*labi.MetadataResponse, error) {
	return &labi.MetadataResponse{}, nil
}
func (m *MockABI) Query(req *labi.QueryRequest) (*labi.QueryResponse, error) {
	return &labi.QueryResponse{}, nil
}
func (m *MockABI) Prove(req *labi.ProveRequest) (*labi.ProveResponse, error) {
	return &labi.ProveResponse{}, nil
}

var _ labi.ABI = (*MockABI)(nil)

// EventRoot is the LIP-0065 event root computed with the reference sparse-Merkle definition
// (blockchain.CalculateEventRoot opens a fresh pebble instance per call and never closes it).
func EventRoot(evs []*blockchain.Event) []byte {
	m := map[string][]byte{}
	for _, e := range evs {
		for _, kv := range e.KeyPairs() {
			m[string(kv.Key)] = kv.Value
		}
	}
	return ref.SMTRoot(m)
}

// ---- node ----------------------------------------------------------------------------------

type Node struct {
	Cfg     Config
	DB      *db.DB
	Chain   *blockchain.Chain
	Exec    *consensus.Executer
	App     *MockABI
	Genesis *blockchain.Block
	Slot    *validator.BlockSlot
	Conn    *p2p.Connection
	evCh    map[string]chan interface{}
	Logger  log.Logger
}

var silent log.Logger

// one small block cache shared by every in-memory DB of the process
var sharedCache = pebble.NewCache(8 << 20)

// processStart fixes "now" once per process so that every node built in one run shares its genesis.
var processStart = uint32(time.Now().Unix())

func init() { silent = nolog.L{} }

func (c *Config) genesisTimestamp() uint32 {
	if c.GenesisTimeFix != 0 {
		return c.GenesisTimeFix
	}
	return processStart - uint32(c.CurrentSlot)*c.BlockTime - c.BlockTime/2
}

func BuildGenesis(cfg *Config) *blockchain.Block {
	g := blockchain.NewGenesisBlock(cfg.GenesisHeight, cfg.genesisTimestamp(), bytes.Repeat([]byte{0}, 32), blockchain.BlockAssets{})
	hv := []validator.HashValidator{}
	for _, lv := range cfg.Set.Labi() {
		if lv.BFTWeight > 0 {
			hv = append(hv, validator.NewHashValidator(lv.BLSKey, lv.BFTWeight))
		}
	}
	vh, _ := validator.ComputeValidatorsHash(hv, cfg.Set.Cert)
	g.Header.ValidatorsHash = vh
	g.Header.StateRoot = GenesisRoot()
	evs := blockchain.Events(GenesisEvents(cfg))
	evs.UpdateIndex()
	g.Header.EventRoot = EventRoot(evs)
	g.Header.Init()
	return g
}

// New creates (or, with cfg.ExistingDB, restarts) a node.
func New(cfg Config) (*Node, error) {
	n := &Node{Cfg: cfg, evCh: map[string]chan interface{}{}, Logger: silent}
	if cfg.ExistingDB != nil {
		n.DB = cfg.ExistingDB
	} else {
		var fs vfs.FS = vfs.NewMem()
		if cfg.FS != nil {
			fs = cfg.FS
		}
		mt := 256 << 10
		if cfg.MemTable != 0 {
			mt = cfg.MemTable
		}
		d, err := db.VerifOpen("", &pebble.Options{FS: fs, MemTableSize: mt, Cache: sharedCache, DisableAutomaticCompactions: true})
		if err != nil {
			return nil, err
		}
		n.DB = d
	}
	if cfg.GenesisTimeFix == 0 {
		n.Cfg.GenesisTimeFix = cfg.genesisTimestamp()
	}
	n.Genesis = BuildGenesis(&n.Cfg)
	if cfg.ExistingApp != nil {
		n.App = cfg.ExistingApp
		n.App.cfg = &n.Cfg
	} else {
		n.App = NewMockABI(&n.Cfg)
	}
	n.Chain = blockchain.NewChain(&blockchain.ChainConfig{ChainID: cfg.ChainID, MaxTransactionsLength: cfg.MaxPayload, MaxBlockCache: cfg.MaxBlockCache, KeepEventsForHeights: cfg.KeepEvents})
	n.Chain.Init(n.Genesis, n.DB)
	if cfg.RecoverApp {
		n.App.Roots = nil
		for h := cfg.GenesisHeight; ; h++ {
			hd, err := n.Chain.DataAccess().GetBlockHeaderByHeight(h)
			if err != nil {
				break
			}
			n.App.Roots = append(n.App.Roots, hd.StateRoot)
		}
	}
	conn := p2p.NewConnection(silent, &p2p.Config{ChainID: cfg.ChainID, Addresses: cfg.P2PAddrs, ConnectionSecurity: "none", MinNumOfConnections: 1})
	n.Conn = conn
	n.Exec = consensus.NewExecuter(&consensus.ExecuterConfig{CTX: context.Background(), ABI: n.App, Chain: n.Chain, Conn: conn, BlockTime: cfg.BlockTime, BatchSize: cfg.BatchSize})
	if err := n.Exec.Init(&consensus.ExecuterInitParam{CTX: context.Background(), Logger: silent, Database: n.DB, GenesisBlock: n.Genesis}); err != nil {
		return nil, err
	}
	n.Slot = validator.NewBlockSlot(n.Genesis.Header.Timestamp, cfg.BlockTime)
	if cfg.StartP2P {
		seed := cfg.P2PSeed
		if len(seed) == 0 {
			seed = []byte("verif-node")
		}
		if err := conn.Start(seed); err != nil {
			return nil, err
		}
	}
	for _, t := range []string{consensus.EventBlockNew, consensus.EventBlockDelete, consensus.EventBlockFinalize, consensus.EventValidatorsChange, consensus.EventNetworkBlockNew} {
		ch := make(chan interface{}, 4096)
		n.evCh[t] = ch
		n.Exec.VerifOn(t, ch)
	}
	return n, nil
}

// Restart builds a fresh Chain+Executer over the same DB and application (process restart).
func (n *Node) Restart() (*Node, error) {
	cfg := n.Cfg
	cfg.ExistingDB = n.DB
	cfg.ExistingApp = n.App
	cfg.GenesisTimeFix = n.Genesis.Header.Timestamp
	return New(cfg)
}

// DrainEvents returns and clears the events published since the last call, as "topic:detail" strings in publish order per topic.
func (n *Node) DrainEvents() []string {
	out := []string{}
	topics := []string{}
	for t := range n.evCh {
		topics = append(topics, t)
	}
	sort.Strings(topics)
	for _, t := range topics {
		ch := n.evCh[t]
		for {
			select {
			case m := <-ch:
				switch e := m.(type) {
				case *consensus.EventBlockNewMessage:
					out = append(out, fmt.Sprintf("%s:h%d:%x:ev%d", t, e.Block.Header.Height, e.Block.Header.ID[:4], len(e.Events)))
				case *consensus.EventBlockDeleteMessage:
					out = append(out, fmt.Sprintf("%s:h%d:%x", t, e.Block.Header.Height, e.Block.Header.ID[:4]))
				case *consensus.EventBlockFinalizeMessage:
					out = append(out, fmt.Sprintf("%s:%d->%d", t, e.Original, e.Next))
				default:
					out = append(out, t)
				}
				continue
			default:
			}
			break
		}
	}
	return out
}

// Dump returns the whole database as a sorted key->value listing.
func (n *Node) Dump() map[string]string {
	out := map[string]string{}
	for p := 0; p < 256; p++ {
		for _, kv := range n.DB.Iterate([]byte{byte(p)}, -1, false) {
			out[string(kv.Key())] = string(kv.Value())
		}
	}
	return out
}

func DumpHash(d map[string]string) string {
	keys := make([]string, 0, len(d))
	for k := range d {
		keys = append(keys, k)
	}
	sort.Strings(keys)
	parts := [][]byte{}
	for _, k := range keys {
		parts = append(parts, []byte(k), []byte(d[k]))
	}
	return fmt.Sprintf("%x", h256(parts...)[:12])
}

// DiffDumps describes the key-level difference between two dumps (for diagnostics).
func DiffDumps(a, b map[string]string) []string {
	out := []string{}
	for k, v := range a {
		w, ok := b[k]
		if !ok {
			out = append(out, fmt.Sprintf("-%x", k))
		} else if w != v {
			out = append(out, fmt.Sprintf("~%x", k))
		}
	}
	for k := range b {
		if _, ok := a[k]; !ok {
			out = append(out, fmt.Sprintf("+%x", k))
		}
	}
	sort.Strings(out)
	return out
}

// Close releases the database (memtables) of a node that is no longer needed.
func (n *Node) Close() {
	if n != nil && n.Cfg.StartP2P && n.Conn != nil {
		_ = n.Conn.Stop()
	}
	if n != nil && n.DB != nil {
		_ = n.DB.Close()
	}
}

// CanonicalDump is Dump with order-insensitive values normalised: a stored state diff lists its
// added/updated/deleted entries in Go map order, which carries no meaning.
func (n *Node) CanonicalDump() map[string]string {
	d := n.Dump()
	for k, v := range d {
		if len(k) == 5 && k[0] == 51 {
			df := &diffdb.Diff{}
			if err := df.Decode([]byte(v)); err != nil {
				continue
			}
			sort.Slice(df.Added, func(i, j int) bool { return bytes.Compare(df.Added[i], df.Added[j]) < 0 })
			sort.Slice(df.Updated, func(i, j int) bool { return bytes.Compare(df.Updated[i].Key, df.Updated[j].Key) < 0 })
			sort.Slice(df.Deleted, func(i, j int) bool { return bytes.Compare(df.Deleted[i].Key, df.Deleted[j].Key) < 0 })
			d[k] = string(df.Encode())
		}
	}
	return d
}

func (n *Node) Tip() *blockchain.Block { return n.Chain.LastBlock() }

func (n *Node) BFTHeights() (uint32, uint32, uint32) {
	a, b, c, err := n.Exec.GetBFTHeights(n.Exec.VerifConsensusStore())
	if err != nil {
		panic(err)
	}
	return a, b, c
}

func (n *Node) Finalized() uint32 {
	h, err := n.Chain.DataAccess().GetFinalizedHeight()
	if err != nil {
		panic(err)
	}
	return h
}

// ---- forger --------------------------------------------------------------------------------

type TxSpec struct {
	Sender int
	Nonce  uint64
	Fee    uint64
	Script []byte
	Module string
}

func MakeTx(chainID []byte, s TxSpec) *blockchain.Transaction {
	k := KeysOf(100 + s.Sender)
	mod := s.Module
	if mod == "" {
		mod = "app"
	}
	tx := &blockchain.Transaction{Module: mod, Command: "run", Nonce: s.Nonce, Fee: s.Fee, SenderPublicKey: k.EdPub, Params: s.Script}
	tx.Signatures = []codec.Hex{tx.GetSignature(chainID, k.EdPriv)}
	tx.Init()
	return tx
}

type Shape struct {
	Txs       []TxSpec
	Assets    []*blockchain.BlockAsset
	SkipSlots int
	WithAgg   bool
	Salt      byte // makes otherwise identical siblings distinct (extra asset byte)
	MHG       *uint32
}

func (s Shape) String() string {
	return fmt.Sprintf("txs%d/assets%d/skip%d/agg%v/salt%d", len(s.Txs), len(s.Assets), s.SkipSlots, s.WithAgg, s.Salt)
}

// largestGenerated is the greatest height of a block by addr on the current chain (0 if none).
func (n *Node) largestGenerated(addr []byte) uint32 {
	tip := n.Tip().Header.Height
	for h := tip; h > n.Cfg.GenesisHeight; h-- {
		hd, err := n.Chain.DataAccess().GetBlockHeaderByHeight(h)
		if err != nil {
			break
		}
		if bytes.Equal(hd.GeneratorAddress, addr) {
			return h
		}
		if tip-h > uint32(4*n.Cfg.BatchSize) {
			break
		}
	}
	return 0
}

// KeysForAddress finds the validator keys owning addr (searches indexes 0..31).
func KeysForAddress(addr []byte) *Keys {
	for i := 0; i < 32; i++ {
		if bytes.Equal(KeysOf(i).Address, addr) {
			return KeysOf(i)
		}
	}
	return nil
}

// Forge builds a valid successor of the current tip for the given shape (not applied).
func (n *Node) Forge(s Shape) (*blockchain.Block, error) {
	tip := n.Tip().Header
	height := tip.Height + 1
	slot := n.Slot.GetSlotNumber(tip.Timestamp) + 1 + s.SkipSlots
	ts := n.Slot.GetSlotTime(slot)
	store := n.Exec.VerifConsensusStore()
	gens, err := n.Exec.GetGeneratorKeys(store, height)
	if err != nil {
		return nil, err
	}
	gen, _ := gens.AtTimestamp(n.Slot, ts)
	keys := KeysForAddress(gen.Address())
	if keys == nil {
		return nil, fmt.Errorf("no keys for generator %x", gen.Address())
	}
	mhp, _, mhc, err := n.Exec.GetBFTHeights(store)
	if err != nil {
		return nil, err
	}
	txs := []*blockchain.Transaction{}
	for _, t := range s.Txs {
		txs = append(txs, MakeTx(n.Cfg.ChainID, t))
	}
	assets := blockchain.BlockAssets{}
	for _, a := range s.Assets {
		assets = append(assets, &blockchain.BlockAsset{Module: a.Module, Data: a.Data})
	}
	if s.Salt != 0 {
		assets = append(assets, &blockchain.BlockAsset{Module: "salt", Data: []byte{s.Salt}})
	}
	assets.Sort()
	txIDs := make([][]byte, len(txs))
	for i, t := range txs {
		txIDs[i] = t.ID
	}
	agg := &blockchain.AggregateCommit{Height: mhc, AggregationBits: []byte{}, CertificateSignature: []byte{}}
	if s.WithAgg {
		a, err := n.Exec.GetAggregateCommit()
		if err != nil {
			return nil, err
		}
		agg = a
	}
	mhg := n.largestGenerated(keys.Address)
	if s.MHG != nil {
		mhg = *s.MHG
	}
	hdr := &blockchain.BlockHeader{Version: 2, Timestamp: ts, Height: height, PreviousBlockID: tip.ID, GeneratorAddress: keys.Address,
		TransactionRoot: rmt.CalculateRoot(txIDs), AssetRoot: assets.GetRoot(), MaxHeightPrevoted: mhp, MaxHeightGenerated: mhg,
		AggregateCommit: agg}
	hdr.EventRoot = EventRoot(BlockEvents(height, txs, assets))
	hdr.StateRoot = NextRoot(tip.StateRoot, height, txs, nil)
	// validatorsHash: run the real BFT steps on a throw-away view
	dry := n.Exec.VerifConsensusStore()
	if err := n.Exec.BFTBeforeTransactionsExecute(hdr.Readonly(), dry); err != nil {
		return nil, err
	}
	var change *ValSet
	for _, t := range txs {
		if len(t.Params) >= 2 && t.Params[0] == 9 && int(t.Params[1]) < len(n.Cfg.ValChangeMenu) {
			vs := n.Cfg.ValChangeMenu[t.Params[1]]
			change = &vs
		}
	}
	if change != nil {
		hv := []validator.HashValidator{}
		for _, lv := range change.Labi() {
			if lv.BFTWeight > 0 {
				hv = append(hv, validator.NewHashValidator(lv.BLSKey, lv.BFTWeight))
			}
		}
		vh, _ := validator.ComputeValidatorsHash(hv, change.Cert)
		hdr.ValidatorsHash = vh
	} else {
		p, err := n.Exec.GetBFTParameters(dry, height+1)
		if err != nil {
			return nil, err
		}
		hdr.ValidatorsHash = p.ValidatorsHash()
	}
	hdr.Sign(n.Cfg.ChainID, keys.EdPriv)
	return &blockchain.Block{Header: hdr, Transactions: txs, Assets: assets}, nil
}

// Reseal recomputes roots from the block content and re-signs with the rightful generator key of the header.
func (n *Node) Reseal(b *blockchain.Block, fixRoots bool) {
	if fixRoots {
		txIDs := make([][]byte, len(b.Transactions))
		for i, t := range b.Transactions {
			txIDs[i] = t.ID
		}
		b.Header.TransactionRoot = rmt.CalculateRoot(txIDs)
		b.Header.AssetRoot = blockchain.BlockAssets(b.Assets).GetRoot()
	}
	k := KeysForAddress(b.Header.GeneratorAddress)
	if k != nil {
		b.Header.Sign(n.Cfg.ChainID, k.EdPriv)
	} else {
		b.Header.Init()
	}
}

// CloneBlock deep-copies a block through its encoding.
func CloneBlock(b *blockchain.Block) *blockchain.Block {
	c, err := blockchain.NewBlock(b.Encode())
	if err != nil {
		panic(err)
	}
	return c
}

// Apply forges and applies a block through processValidated.
func (n *Node) Apply(s Shape) (*blockchain.Block, error) {
	b, err := n.Forge(s)
	if err != nil {
		return nil, err
	}
	if err := b.Validate(); err != nil {
		return nil, fmt.Errorf("forged block fails Validate: %w", err)
	}
	if err := n.Exec.VerifProcessValidated(b, false); err != nil {
		return nil, err
	}
	return b, nil
}

// CertifyAll lets every active validator certify heights (from,to] as the generator would do.
func (n *Node) CertifyAll(from, to uint32) error {
	for _, i := range n.Cfg.Set.Listed {
		k := KeysOf(i)
		if err := n.Exec.Certify(from, to, k.Address, k.BLSPriv); err != nil {
			return err
		}
	}
	return nil
}

// ---- monitor -------------------------------------------------------------------------------

// Monitor checks the cross-cutting node invariants (C04 and friends) after every step.
type Monitor struct {
	Finalized uint32
	IDs       map[uint32]string // block id for every height <= Finalized, first seen
	init      bool
}

func NewMonitor() *Monitor { return &Monitor{IDs: map[uint32]string{}} }

func (m *Monitor) Clone() *Monitor {
	c := &Monitor{Finalized: m.Finalized, IDs: map[uint32]string{}, init: m.init}
	for k, v := range m.IDs {
		c.IDs[k] = v
	}
	return c
}

// Check returns a list of invariant violations; events are those drained since the previous check.
func (m *Monitor) Check(n *Node, events []string) []string {
	bad := []string{}
	fin := n.Finalized()
	if m.init && fin < m.Finalized {
		bad = append(bad, fmt.Sprintf("finalized-decreased: %d -> %d", m.Finalized, fin))
	}
	_, pre, _ := n.BFTHeights()
	if n.Tip() == nil {
		bad = append(bad, "cached-tip-missing: Chain.LastBlock() is nil")
		m.Finalized = fin
		m.init = true
		return bad
	}
	tip := n.Tip().Header
	// stored finalized height is the running maximum of the precommitted height
	if fin < pre {
		bad = append(bad, fmt.Sprintf("finalized-behind-precommitted: stored finalized %d < precommitted %d", fin, pre))
	}
	if fin > tip.Height {
		bad = append(bad, fmt.Sprintf("finalized-above-tip: finalized %d tip %d", fin, tip.Height))
	}
	// finalize events exactly on raises
	raised := 0
	for _, e := range events {
		var a, b uint32
		if _, err := fmt.Sscanf(e, consensus.EventBlockFinalize+":%d->%d", &a, &b); err == nil {
			raised++
			if m.init && raised == 1 && a != m.Finalized {
				bad = append(bad, fmt.Sprintf("finalize-event-mismatch: event %d->%d but finalized was %d now %d", a, b, m.Finalized, fin))
			}
			if b <= a {
				bad = append(bad, fmt.Sprintf("finalize-event-not-a-raise: %d->%d", a, b))
			}
		}
	}
	if m.init {
		if fin > m.Finalized && raised == 0 {
			bad = append(bad, fmt.Sprintf("finalize-event-missing: finalized %d -> %d without event", m.Finalized, fin))
		}
		if fin == m.Finalized && raised > 0 {
			bad = append(bad, fmt.Sprintf("finalize-event-spurious: finalized stays %d but %d events", fin, raised))
		}
	}
	// IDs at heights <= finalized never change
	for h := n.Cfg.GenesisHeight; h <= fin; h++ {
		hd, err := n.Chain.DataAccess().GetBlockHeaderByHeight(h)
		if err != nil {
			bad = append(bad, fmt.Sprintf("finalized-block-missing: height %d (finalized %d): %v", h, fin, err))
			continue
		}
		if old, ok := m.IDs[h]; ok {
			if old != string(hd.ID) {
				bad = append(bad, fmt.Sprintf("finalized-block-replaced: height %d", h))
			}
		} else {
			m.IDs[h] = string(hd.ID)
		}
	}
	// BFT store's newest block info = tip (checked through the API: maxHeightPrevoted the next block must carry exists)
	m.Finalized = fin
	m.init = true
	return bad
}

// ---- shape menu shared by C03/C04/C05/C13 --------------------------------------------------

// MenuConfig is the standard small configuration: 2 BFT validators (so finality, pruning and
// certificates occur within a few blocks), batch size 3 (a third validator can join).
func MenuConfig() Config {
	cfg := DefaultConfig(2)
	cfg.BatchSize = 3
	cfg.ValChangeMenu = []ValSet{
		{Weights: []uint64{1, 1, 1}, Listed: []int{0, 1, 2}, Precommit: 3, Cert: 3},
		{Weights: []uint64{2, 1}, Listed: []int{0, 1}, Precommit: 3, Cert: 2},
		{Weights: []uint64{1, 1}, Listed: []int{0, 1}, Precommit: 2, Cert: 2},
	}
	return cfg
}

const NumShapes = 8

// MenuShape instantiates shape number k for a block at the given height (nonces derive from the
// height so no transaction ever appears twice in a chain). salt distinguishes siblings.
func MenuShape(k int, height uint32, salt byte) Shape {
	nonce := func(j int) uint64 { return uint64(height)*100 + uint64(j) + uint64(salt)*10 }
	switch k {
	case 0:
		return Shape{Salt: salt}
	case 1:
		return Shape{Txs: []TxSpec{{Sender: 0, Nonce: nonce(0), Fee: 100, Script: []byte{0}}}, Salt: salt}
	case 2:
		return Shape{Txs: []TxSpec{{Sender: 0, Nonce: nonce(0), Fee: 100, Script: []byte{0}}, {Sender: 1, Nonce: nonce(1), Fee: 50, Script: []byte{0, 7}}},
			Assets: []*blockchain.BlockAsset{{Module: "ev", Data: []byte{1, 2, 3}}}, Salt: salt}
	case 3:
		return Shape{Txs: []TxSpec{{Sender: 1, Nonce: nonce(0), Fee: 10, Script: []byte{2}}}, Assets: []*blockchain.BlockAsset{{Module: "aux", Data: []byte{9}}}, Salt: salt}
	case 4:
		return Shape{Txs: []TxSpec{{Sender: 2, Nonce: nonce(0), Fee: 10, Script: []byte{9, 0}}}, Salt: salt}
	case 5:
		return Shape{Txs: []TxSpec{{Sender: 2, Nonce: nonce(0), Fee: 10, Script: []byte{9, 1}}}, Salt: salt}
	case 6:
		return Shape{SkipSlots: 1, Salt: salt}
	case 7:
		return Shape{WithAgg: true, Txs: []TxSpec{{Sender: 0, Nonce: nonce(0), Fee: 5, Script: []byte{0}}}, Salt: salt}
	case 8:
		// a block whose single write batch is larger than 4 MiB: 400 transactions of 13 KiB (needs MaxPayload >= 6 MiB)
		txs := make([]TxSpec, 400)
		for j := range txs {
			params := make([]byte, 13<<10)
			for i := 1; i < len(params); i++ {
				params[i] = byte(i*7 + j)
			}
			txs[j] = TxSpec{Sender: j % 3, Nonce: nonce(0) + uint64(j), Fee: 100, Script: params}
		}
		return Shape{Txs: txs, Assets: []*blockchain.BlockAsset{{Module: "ev", Data: []byte{4, 5}}}, Salt: salt}
	}
	panic("bad shape")
}

// ApplyMenu applies menu shape k on the current tip (certifying first for the aggregate-commit shape).
func (n *Node) ApplyMenu(k int, salt byte) (*blockchain.Block, error) {
	b, err := n.ForgeMenu(k, salt)
	if err != nil {
		return nil, err
	}
	if err := n.Exec.VerifProcessValidated(b, false); err != nil {
		return nil, err
	}
	return b, nil
}

func (n *Node) ForgeMenu(k int, salt byte) (*blockchain.Block, error) {
	if k == 7 {
		_, pre, cert := n.BFTHeights()
		if pre > cert {
			n.certifyCurrent(cert, pre)
		}
	}
	return n.Forge(MenuShape(k, n.Tip().Header.Height+1, salt))
}

// certifyCurrent lets the validators active at each height certify (from,to].
func (n *Node) certifyCurrent(from, to uint32) {
	for i := 0; i < 4; i++ {
		k := KeysOf(i)
		_ = n.Exec.Certify(from, to, k.Address, k.BLSPriv)
	}
}

// BuildPath creates a fresh node and applies the menu shapes of path in order.
func BuildPath(cfg Config, path []int) (*Node, error) {
	n, err := New(cfg)
	if err != nil {
		return nil, err
	}
	for i, k := range path {
		if _, err := n.ApplyMenu(k, 0); err != nil {
			return nil, fmt.Errorf("step %d (shape %d): %w", i, k, err)
		}
	}
	return n, nil
}

// CloneBlockLoose deep-copies a block field by field (works for blocks that would not decode strictly).
func CloneBlockLoose(b *blockchain.Block) *blockchain.Block {
	h := *b.Header
	cp := func(x []byte) []byte { return append([]byte{}, x...) }
	h.ID, h.PreviousBlockID, h.GeneratorAddress = cp(h.ID), cp(h.PreviousBlockID), cp(h.GeneratorAddress)
	h.TransactionRoot, h.AssetRoot, h.EventRoot, h.StateRoot = cp(h.TransactionRoot), cp(h.AssetRoot), cp(h.EventRoot), cp(h.StateRoot)
	h.ValidatorsHash, h.Signature = cp(h.ValidatorsHash), cp(h.Signature)
	if h.AggregateCommit != nil {
		a := *h.AggregateCommit
		a.AggregationBits, a.CertificateSignature = cp(a.AggregationBits), cp(a.CertificateSignature)
		h.AggregateCommit = &a
	}
	nb := &blockchain.Block{Header: &h}
	for _, t := range b.Transactions {
		nb.Transactions = append(nb.Transactions, t.Copy())
	}
	for _, a := range b.Assets {
		nb.Assets = append(nb.Assets, &blockchain.BlockAsset{Module: a.Module, Data: cp(a.Data)})
	}
	if nb.Transactions == nil {
		nb.Transactions = []*blockchain.Transaction{}
	}
	if nb.Assets == nil {
		nb.Assets = []*blockchain.BlockAsset{}
	}
	return nb
}
