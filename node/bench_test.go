package node

import (
	"fmt"
	"github.com/LiskHQ/lisk-engine/pkg/blockchain"
	"testing"
	"time"
)

func TestBenchNew(t *testing.T) {
	cfg := MenuConfig()
	start := time.Now()
	for i := 0; i < 200; i++ {
		n, err := New(cfg)
		if err != nil {
			t.Fatal(err)
		}
		n.Close()
	}
	fmt.Println("New+Close", time.Since(start)/200)
	n, _ := New(cfg)
	start = time.Now()
	for i := 0; i < 50; i++ {
		n.ApplyMenu(i%4, 0)
	}
	fmt.Println("Apply", time.Since(start)/50)
	start = time.Now()
	for i := 0; i < 50; i++ {
		n.CanonicalDump()
	}
	fmt.Println("Dump", time.Since(start)/50)
}

func TestEventRootAgrees(t *testing.T) {
	for k := 0; k < NumShapes; k++ {
		s := MenuShape(k, 5, 0)
		txs := []*blockchain.Transaction{}
		for _, x := range s.Txs {
			txs = append(txs, MakeTx([]byte{1, 2, 3, 4}, x))
		}
		evs := BlockEvents(5, txs, s.Assets)
		real, err := blockchain.CalculateEventRoot(evs)
		if err != nil || string(real) != string(EventRoot(evs)) {
			t.Fatalf("event root differs for shape %d: %x vs %x (%v)", k, real, EventRoot(evs), err)
		}
	}
}

func TestStartP2P(t *testing.T) {
	cfg := MenuConfig()
	cfg.StartP2P = true
	start := time.Now()
	n, err := New(cfg)
	if err != nil {
		t.Fatal(err)
	}
	fmt.Println("start with p2p", time.Since(start))
	n.Conn.BanPeer("nobody")
	n.Close()
	fmt.Println("total", time.Since(start))
}
