// Package bftwalk enumerates header chains (deviation-bounded DFS) and drives the real liskbft
// module and the LIP-0058 reference side by side. Used by C02 (differential oracle) and C07b.
package bftwalk

import (
	"fmt"
	"sort"

	"github.com/LiskHQ/lisk-engine/pkg/blockchain"

	"verif/bftx"
	"verif/ref"
)

// Spec is the currently active parameter set (what the next SetBFTParameters is relative to).
type Spec struct {
	Weights   []uint64 // by validator index; 0 = not a member
	Precommit uint64
	Cert      uint64
}

func (s Spec) Members() []int {
	m := []int{}
	for i, w := range s.Weights {
		if w > 0 {
			m = append(m, i)
		}
	}
	return m
}

func (s Spec) Total() uint64 {
	var t uint64
	for _, w := range s.Weights {
		t += w
	}
	return t
}

func (s Spec) Validators() []bftx.ValidatorSpec {
	vs := []bftx.ValidatorSpec{}
	for i, w := range s.Weights {
		if w > 0 {
			vs = append(vs, bftx.ValidatorSpec{Idx: i, Weight: w})
		}
	}
	return vs
}

func (s Spec) RefWeights() map[string]uint64 {
	m := map[string]uint64{}
	for i, w := range s.Weights {
		if w > 0 {
			m[string(bftx.Addr(i))] = w
		}
	}
	return m
}

// Step is one block plus an optional parameter change after it.
type Step struct {
	Gen      int    `json:"gen"`
	MHG      uint32 `json:"mhg"`
	MHP      uint32 `json:"mhp"`
	Agg      int    `json:"agg"`   // 0 empty, 1 certify mhc+1, 2 certify precommitted
	Param    int    `json:"param"` // 0 none, 1.. see ParamMenu
	Cost     int    `json:"cost"`
	AggH     uint32 `json:"aggHeight"`
	ParamOK  bool   `json:"paramAccepted"`
	ParamTxt string `json:"paramTxt,omitempty"`
}

func (s Step) String() string {
	return fmt.Sprintf("g%d/mhg%d/mhp%d/agg%d/p%d", s.Gen, s.MHG, s.MHP, s.Agg, s.Param)
}

type Node struct {
	St     *bftx.MapStore
	Ref    *ref.BFT
	Height uint32 // tip height
	Spec   Spec   // spec active for the NEXT block (after pending change)
	Path   []Step
	LastH  *bftx.Hdr
}

type Config struct {
	Batch      int
	Genesis    uint32
	Init       Spec
	Depth      int
	Budget     int  // max total deviations along a path
	MaxVal     int  // validator indexes available [0,MaxVal)
	ParamMenu  bool // allow parameter changes
	AggMenu    bool
	MHPMenu    bool
	NonMember  bool
	MHGAlts    []int // symbolic alternatives: see mhgCandidates
	StepFilter func(depth int, s Step) bool
}

type Walker struct {
	Cfg   Config
	Env   *bftx.Env
	Env2  *bftx.Env // second independent instance ("two nodes agree")
	Trans int64
	// OnTransition is called after every real+ref transition. Returning false prunes the subtree.
	OnTransition func(parent, child *Node, step Step) bool
	// Fail is called on harness-level divergence (real accepted / ref rejected or vice versa).
	Fail func(key, what string, path []Step)
	Stop func() bool
}

func (w *Walker) Root() *Node {
	st, err := w.Env.Genesis(w.Cfg.Genesis, w.Cfg.Init.Precommit, w.Cfg.Init.Cert, w.Cfg.Init.Validators())
	if err != nil {
		panic(err)
	}
	r := ref.NewBFT(w.Cfg.Batch, w.Cfg.Genesis)
	if err := r.SetParams(w.Cfg.Init.Precommit, w.Cfg.Init.Cert, w.Cfg.Init.RefWeights()); err != nil {
		panic(err)
	}
	return &Node{St: st, Ref: r, Height: w.Cfg.Genesis, Spec: w.Cfg.Init}
}

func lastOwn(r *ref.BFT, gen string) uint32 {
	var best uint32
	for h, i := range r.Infos {
		if i.Generator == gen && h > best {
			best = h
		}
	}
	return best
}

// paramMenu returns the candidate parameter changes relative to spec. ok=false entries must be rejected.
func paramMenu(s Spec, batch, maxVal int) []struct {
	S   Spec
	Txt string
} {
	out := []struct {
		S   Spec
		Txt string
	}{}
	cp := func() Spec {
		c := Spec{Weights: append([]uint64{}, s.Weights...), Precommit: s.Precommit, Cert: s.Cert}
		for len(c.Weights) < maxVal {
			c.Weights = append(c.Weights, 0)
		}
		return c
	}
	fix := func(c Spec) Spec { // keep thresholds legal at the same relative position
		W := c.Total()
		c.Precommit = 2*W/3 + 1
		c.Cert = 2*W/3 + 1
		return c
	}
	mem := s.Members()
	// 1 add the lowest non-member
	for i := 0; i < maxVal; i++ {
		if i >= len(s.Weights) || s.Weights[i] == 0 {
			c := cp()
			c.Weights[i] = 1
			out = append(out, struct {
				S   Spec
				Txt string
			}{fix(c), fmt.Sprintf("add v%d", i)})
			break
		}
	}
	// 2 remove the highest member
	if len(mem) > 1 {
		c := cp()
		c.Weights[mem[len(mem)-1]] = 0
		out = append(out, struct {
			S   Spec
			Txt string
		}{fix(c), fmt.Sprintf("remove v%d", mem[len(mem)-1])})
	}
	// 3 re-weight the lowest member
	{
		c := cp()
		c.Weights[mem[0]]++
		out = append(out, struct {
			S   Spec
			Txt string
		}{fix(c), fmt.Sprintf("reweight v%d", mem[0])})
	}
	// 4 thresholds to the maximum
	{
		c := cp()
		c.Precommit = c.Total()
		c.Cert = c.Total()
		out = append(out, struct {
			S   Spec
			Txt string
		}{c, "thresholds=W"})
	}
	// 5 precommit threshold at legal minimum / cert at minimum
	{
		c := cp()
		c.Precommit = c.Total()/3 + 1
		c.Cert = c.Total()/3 + 1
		out = append(out, struct {
			S   Spec
			Txt string
		}{c, "thresholds=W/3+1"})
	}
	// 6 illegal: precommit below minimum
	{
		c := cp()
		c.Precommit = c.Total() / 3
		out = append(out, struct {
			S   Spec
			Txt string
		}{c, "ILLEGAL precommit=W/3"})
	}
	// 7 illegal: cert above W
	{
		c := cp()
		c.Cert = c.Total() + 1
		out = append(out, struct {
			S   Spec
			Txt string
		}{c, "ILLEGAL cert=W+1"})
	}
	// 8 swap: remove lowest member and add a new one in the same change (join+leave)
	if len(mem) > 1 {
		for i := 0; i < maxVal; i++ {
			if i >= len(s.Weights) || s.Weights[i] == 0 {
				c := cp()
				c.Weights[i] = 1
				c.Weights[mem[0]] = 0
				out = append(out, struct {
					S   Spec
					Txt string
				}{fix(c), fmt.Sprintf("swap v%d for v%d", mem[0], i)})
				break
			}
		}
	}
	return out
}

func uniq(xs []uint32) []uint32 {
	sort.Slice(xs, func(i, j int) bool { return xs[i] < xs[j] })
	out := xs[:0]
	for i, x := range xs {
		if i == 0 || x != xs[i-1] {
			out = append(out, x)
		}
	}
	return out
}

// Successors enumerates the steps available at n whose cost fits the remaining budget.
func (w *Walker) Successors(n *Node, budget int) []Step {
	cfg := w.Cfg
	h := n.Height + 1
	members := n.Spec.Members()
	// the members for height h are those of the params active at h in the reference
	if p, _, ok := n.Ref.ParamsAt(h); ok {
		members = members[:0]
		for i := 0; i < cfg.MaxVal; i++ {
			if _, in := p.Weights[string(bftx.Addr(i))]; in {
				members = append(members, i)
			}
		}
	}
	defGen := members[int(h)%len(members)]
	gens := []int{defGen}
	for _, m := range members {
		if m != defGen {
			gens = append(gens, m)
		}
	}
	if cfg.NonMember {
		gens = append(gens, 99)
	}
	mhpDef := n.Ref.MaxPrevoted
	mhps := []uint32{mhpDef}
	if cfg.MHPMenu {
		for _, x := range []uint32{0, h} {
			if x != mhpDef {
				mhps = append(mhps, x)
			}
		}
	}
	aggs := []int{0}
	if cfg.AggMenu {
		if n.Ref.MaxCertified+1 <= n.Height {
			aggs = append(aggs, 1)
		}
		if n.Ref.MaxPrecommit > n.Ref.MaxCertified+1 {
			aggs = append(aggs, 2)
		}
	}
	nparam := 0
	if cfg.ParamMenu {
		nparam = len(paramMenu(n.Spec, cfg.Batch, cfg.MaxVal))
	}
	steps := []Step{}
	for gi, g := range gens {
		gaddr := string(bftx.Addr(g))
		own := lastOwn(n.Ref, gaddr)
		cands := []uint32{own}
		alts := []uint32{}
		for _, a := range cfg.MHGAlts {
			switch a {
			case 0:
				alts = append(alts, 0)
			case 1:
				alts = append(alts, h-1)
			case 2:
				alts = append(alts, h)
			case 3:
				alts = append(alts, h+1)
			case 4:
				if h >= 2 {
					alts = append(alts, h-2)
				}
			case 5:
				if h >= 3 {
					alts = append(alts, h-3)
				}
			}
		}
		alts = uniq(alts)
		for _, a := range alts {
			if a != own {
				cands = append(cands, a)
			}
		}
		for mi, mhg := range cands {
			for pi, mhp := range mhps {
				for _, ag := range aggs {
					for pm := 0; pm <= nparam; pm++ {
						cost := 0
						if gi != 0 {
							cost++
						}
						if mi != 0 {
							cost++
						}
						if pi != 0 {
							cost++
						}
						if ag != 0 {
							cost++
						}
						if pm != 0 {
							cost++
						}
						if cost > budget {
							continue
						}
						s := Step{Gen: g, MHG: mhg, MHP: mhp, Agg: ag, Param: pm, Cost: cost}
						if cfg.StepFilter != nil && !cfg.StepFilter(len(n.Path), s) {
							continue
						}
						steps = append(steps, s)
					}
				}
			}
		}
	}
	return steps
}

// Do applies step s to n on the real module and on the reference.
func (w *Walker) Do(n *Node, s Step) (*Node, error) {
	h := n.Height + 1
	hdr := &bftx.Hdr{H: h, Gen: bftx.Addr(s.Gen), MHG: s.MHG, MHP: s.MHP, Ver: 2,
		IDv: []byte(fmt.Sprintf("%d:%v", h, s))}
	bh := ref.BHeader{Height: h, Generator: string(bftx.Addr(s.Gen)), MHG: s.MHG, MHP: s.MHP, AggEmpty: true}
	switch s.Agg {
	case 1:
		s.AggH = n.Ref.MaxCertified + 1
	case 2:
		s.AggH = n.Ref.MaxPrecommit
	}
	if s.Agg != 0 {
		hdr.AggC = &blockchain.AggregateCommit{Height: s.AggH, AggregationBits: []byte{1}, CertificateSignature: []byte{1}}
		bh.AggEmpty, bh.AggHeight = false, s.AggH
	} else {
		hdr.AggC = &blockchain.AggregateCommit{Height: n.Ref.MaxCertified}
	}
	w.Trans++
	st, err := w.Env.Apply(n.St, hdr)
	r := n.Ref.Clone()
	rerr := r.Apply(bh)
	if (err != nil) != (rerr != nil) {
		return nil, fmt.Errorf("real err=%v, reference err=%v", err, rerr)
	}
	if err != nil {
		return nil, nil // both reject (e.g. generator not in parameters): no successor
	}
	child := &Node{St: st, Ref: r, Height: h, Spec: n.Spec, LastH: hdr}
	if s.Param != 0 {
		menu := paramMenu(n.Spec, w.Cfg.Batch, w.Cfg.MaxVal)
		pc := menu[s.Param-1]
		s.ParamTxt = pc.Txt
		st2, perr := w.Env.SetParams(st, pc.S.Precommit, pc.S.Cert, pc.S.Validators())
		rperr := r.SetParams(pc.S.Precommit, pc.S.Cert, pc.S.RefWeights())
		if (perr != nil) != (rperr != nil) {
			return nil, fmt.Errorf("SetBFTParameters(%s): real err=%v, reference err=%v", pc.Txt, perr, rperr)
		}
		if perr == nil {
			child.St = st2
			child.Spec = pc.S
			s.ParamOK = true
		}
	}
	child.Path = append(append([]Step{}, n.Path...), s)
	return child, nil
}

// Walk runs the deviation-bounded DFS from n.
func (w *Walker) Walk(n *Node, budget int) {
	if len(n.Path) >= w.Cfg.Depth {
		return
	}
	if w.Stop != nil && w.Stop() {
		return
	}
	for _, s := range w.Successors(n, budget) {
		child, err := w.Do(n, s)
		if err != nil {
			w.Fail("accept-mismatch:"+s.String(), err.Error(), append(append([]Step{}, n.Path...), s))
			continue
		}
		if child == nil {
			continue
		}
		if w.OnTransition != nil && !w.OnTransition(n, child, child.Path[len(child.Path)-1]) {
			continue
		}
		w.Walk(child, budget-s.Cost)
	}
}
