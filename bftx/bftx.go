// Package bftx drives the real liskbft module over a cloneable in-memory store, so that the
// BFT state of every node of a fork tree can be derived from its parent's by one real call.
package bftx

import (
	"bytes"
	"sort"

	"github.com/LiskHQ/lisk-engine/pkg/blockchain"
	"github.com/LiskHQ/lisk-engine/pkg/codec"
	"github.com/LiskHQ/lisk-engine/pkg/consensus/liskbft"
	"github.com/LiskHQ/lisk-engine/pkg/db"
	"github.com/LiskHQ/lisk-engine/pkg/db/diffdb"
)

// MapStore is a sorted-map key/value store implementing diffdb.DatabaseReader and DatabaseWriter.
type MapStore struct {
	M map[string][]byte
}

func NewMapStore() *MapStore { return &MapStore{M: map[string][]byte{}} }

func (s *MapStore) Clone() *MapStore {
	c := &MapStore{M: make(map[string][]byte, len(s.M))}
	for k, v := range s.M {
		c.M[k] = v // values are never mutated in place
	}
	return c
}

func (s *MapStore) Get(key []byte) ([]byte, bool) {
	v, ok := s.M[string(key)]
	if !ok {
		return nil, false
	}
	return append([]byte{}, v...), true
}

func (s *MapStore) Set(key, value []byte) { s.M[string(key)] = append([]byte{}, value...) }
func (s *MapStore) Del(key []byte)        { delete(s.M, string(key)) }

func (s *MapStore) sortedKeys() []string {
	keys := make([]string, 0, len(s.M))
	for k := range s.M {
		keys = append(keys, k)
	}
	sort.Strings(keys)
	return keys
}

func (s *MapStore) collect(keep func(k string) bool, limit int, reverse bool) []db.KeyValue {
	keys := s.sortedKeys()
	res := []db.KeyValue{}
	n := len(keys)
	for i := 0; i < n; i++ {
		k := keys[i]
		if reverse {
			k = keys[n-1-i]
		}
		if !keep(k) {
			continue
		}
		if limit != -1 && len(res) >= limit {
			break
		}
		res = append(res, db.NewKeyValue([]byte(k), append([]byte{}, s.M[k]...)))
	}
	return res
}

func (s *MapStore) Iterate(prefix []byte, limit int, reverse bool) []db.KeyValue {
	return s.collect(func(k string) bool { return bytes.HasPrefix([]byte(k), prefix) }, limit, reverse)
}

func (s *MapStore) IterateRange(start, end []byte, limit int, reverse bool) []db.KeyValue {
	return s.collect(func(k string) bool {
		return bytes.Compare([]byte(k), start) >= 0 && bytes.Compare([]byte(k), end) <= 0
	}, limit, reverse)
}

// Bytes is a canonical serialisation of the whole store (state identity).
func (s *MapStore) Bytes() []byte {
	var b bytes.Buffer
	for _, k := range s.sortedKeys() {
		v := s.M[k]
		b.WriteByte(byte(len(k)))
		b.WriteString(k)
		b.WriteByte(byte(len(v) >> 8))
		b.WriteByte(byte(len(v)))
		b.Write(v)
	}
	return b.Bytes()
}

// Hdr is a minimal block header implementing blockchain.SealedBlockHeader.
type Hdr struct {
	IDv     []byte
	H       uint32
	Gen     []byte
	MHG     uint32
	MHP     uint32
	Prev    []byte
	AggC    *blockchain.AggregateCommit
	Implies bool
	Ver     uint32
	Ts      uint32
}

var emptyAgg = &blockchain.AggregateCommit{}

func (h *Hdr) Version() uint32                { return h.Ver }
func (h *Hdr) Height() uint32                 { return h.H }
func (h *Hdr) Timestamp() uint32              { return h.Ts }
func (h *Hdr) PreviousBlockID() codec.Hex     { return h.Prev }
func (h *Hdr) GeneratorAddress() codec.Lisk32 { return h.Gen }
func (h *Hdr) AggregateCommit() *blockchain.AggregateCommit {
	if h.AggC == nil {
		return emptyAgg
	}
	return h.AggC
}
func (h *Hdr) MaxHeightPrevoted() uint32  { return h.MHP }
func (h *Hdr) MaxHeightGenerated() uint32 { return h.MHG }
func (h *Hdr) ImpliesMaxPrevotes() bool   { return h.Implies }
func (h *Hdr) ID() []byte                 { return h.IDv }
func (h *Hdr) Signature() []byte          { return nil }
func (h *Hdr) SigningBytes() []byte       { return nil }
func (h *Hdr) TransactionRoot() []byte    { return nil }
func (h *Hdr) AssetRoot() []byte          { return nil }
func (h *Hdr) StateRoot() []byte          { return nil }
func (h *Hdr) ValidatorsHash() []byte     { return nil }

var _ blockchain.SealedBlockHeader = (*Hdr)(nil)

// Addr returns a 20-byte address for validator index i.
func Addr(i int) []byte {
	a := make([]byte, 20)
	a[0] = byte(i + 1)
	a[19] = byte(0xa0 + i)
	return a
}

// BLS returns a fake 48-byte BLS key for validator index i (never verified in BFT counting).
func BLS(i int) []byte {
	k := make([]byte, 48)
	k[0] = byte(0x80 + i)
	k[47] = byte(i)
	return k
}

// Env wraps the real module.
type Env struct {
	Mod   *liskbft.Module
	Batch int
}

func NewEnv(batch int) *Env {
	m := liskbft.NewModule()
	if err := m.Init(batch); err != nil {
		panic(err)
	}
	return &Env{Mod: m, Batch: batch}
}

// View opens a fresh staged view over st.
func View(st *MapStore) *diffdb.Database { return diffdb.New(st, []byte{}) }

// ValidatorSpec is (index, weight).
type ValidatorSpec struct {
	Idx    int
	Weight uint64
}

func toBFT(vs []ValidatorSpec) liskbft.BFTValidators {
	res := liskbft.BFTValidators{}
	for _, v := range vs {
		res = append(res, liskbft.NewValidator(Addr(v.Idx), v.Weight, BLS(v.Idx)))
	}
	return res
}

// Genesis creates the store after a genesis block at height gh with the given parameters.
func (e *Env) Genesis(gh uint32, precommit, cert uint64, vs []ValidatorSpec) (*MapStore, error) {
	st := NewMapStore()
	d := View(st)
	if err := e.Mod.InitGenesisState(&Hdr{H: gh, Gen: make([]byte, 20)}, d); err != nil {
		return nil, err
	}
	if err := e.Mod.API().SetBFTParameters(d, precommit, cert, toBFT(vs)); err != nil {
		return nil, err
	}
	d.Commit(st)
	return st, nil
}

// Apply runs the real BeforeTransactionsExecute for header on a copy of parent.
func (e *Env) Apply(parent *MapStore, h *Hdr) (*MapStore, error) {
	st := parent.Clone()
	d := View(st)
	if err := e.Mod.BeforeTransactionsExecute(h, d); err != nil {
		return nil, err
	}
	d.Commit(st)
	return st, nil
}

// SetParams runs the real SetBFTParameters on a copy of parent (as done after a block's execution).
func (e *Env) SetParams(parent *MapStore, precommit, cert uint64, vs []ValidatorSpec) (*MapStore, error) {
	st := parent.Clone()
	d := View(st)
	if err := e.Mod.API().SetBFTParameters(d, precommit, cert, toBFT(vs)); err != nil {
		return nil, err
	}
	d.Commit(st)
	return st, nil
}

func (e *Env) Heights(st *MapStore) (uint32, uint32, uint32) {
	a, b, c, err := e.Mod.API().GetBFTHeights(View(st))
	if err != nil {
		panic(err)
	}
	return a, b, c
}

func (e *Env) Contradicting(st *MapStore, h *Hdr) bool {
	c, err := e.Mod.API().IsHeaderContradictingChain(View(st), h)
	if err != nil {
		panic(err)
	}
	return c
}
